#!/bin/sh
# Builds the verification tools from files on disk (offline) and warms the Go
# build cache for the plain and the race configuration of the worker.
set -e
cd "$(dirname "$0")"
root=$(pwd)
export GOFLAGS=-mod=mod GOPROXY=off GOSUMDB=off GOTOOLCHAIN=local
mkdir -p bin evidence replays
go build -o bin/simrewrite ./cmd/simrewrite
go build -o bin/vcheck ./cmd/vcheck
tmp=$(mktemp -d)
trap 'rm -rf "$tmp"' EXIT
./bin/simrewrite -repo /repo -sim "$root/overlay/verifsim" -out "$tmp"
go build -tags verif -overlay "$tmp/overlay.json" -o "$tmp/w" ./worker
go build -race -tags verif -overlay "$tmp/overlay.json" -o "$tmp/wr" ./worker
echo "setup ok"
