package main

import (
	"fmt"
	"time"

	"github.com/skx/evalfilter/v2/verifsim"
)

// SIMTEST is not a property of evalfilter: it exercises the simulator's own
// primitives (scheduler, simulated mutex / RWMutex / Cond, polled channel
// operations, deterministic pool) on small programs whose outcome is known,
// under every scheduling policy.  `vcheck SIMTEST` must pass before anything
// the concurrency simulation says is believed.

type simtest struct{}

func init() { propFactories["SIMTEST"] = func() Prop { return &simtest{} } }

func (p *simtest) ID() string                      { return "SIMTEST" }
func (p *simtest) Enumerate(tier string) [][]int32 { return nil }
func (p *simtest) RandomRuns(tier string) int {
	if tier == "thorough" {
		return 400000
	}
	return 40000
}

func (p *simtest) Run(c *verifsim.Chooser, st *Stats, render bool) *Outcome {
	o := &Outcome{}
	// (deadlocking programs leave parked threads behind: keep them rare)
	scenario := []int{0, 1, 2, 4, 5, 6, 7, 8, 9, 10, 0, 1, 2, 4, 5, 6, 7, 8, 9, 10, 0, 1, 2, 4, 5, 6, 1, 2, 5, 6, 0, 4, 3}[c.Intn(33)]
	verifsim.ResetTime()
	s := verifsim.NewSched(c, 200000)
	name := ""
	expectDeadlock := false
	var check func() string
	switch scenario {
	case 0: // mutex-protected counter, n tasks x m increments, yields inside the critical section
		name = "mutex counter"
		var mu verifsim.Mutex
		n, m := 2+c.Intn(4), 1+c.Intn(5)
		counter := 0
		for t := 0; t < n; t++ {
			s.Go(func() {
				for i := 0; i < m; i++ {
					mu.Lock()
					v := counter
					verifsim.Yield(verifsim.YHost, 0)
					counter = v + 1
					mu.Unlock()
				}
			})
		}
		check = func() string {
			if counter != n*m {
				return fmt.Sprintf("counter=%d want %d", counter, n*m)
			}
			return ""
		}
	case 1: // buffered channel: producers and consumers
		name = "channel producers/consumers"
		ch := make(chan int, 1+c.Intn(3))
		np, each := 1+c.Intn(3), 1+c.Intn(4)
		sum, want := 0, 0
		for t := 0; t < np; t++ {
			t := t
			s.Go(func() {
				for i := 0; i < each; i++ {
					verifsim.ChanSend(ch, t*100+i)
				}
			})
			for i := 0; i < each; i++ {
				want += t*100 + i
			}
		}
		s.Go(func() {
			for i := 0; i < np*each; i++ {
				sum += verifsim.ChanRecv(ch)
				verifsim.Yield(verifsim.YHost, 0)
			}
		})
		check = func() string {
			if sum != want {
				return fmt.Sprintf("sum=%d want %d", sum, want)
			}
			return ""
		}
	case 2: // condition variable hand-off
		name = "cond hand-off"
		var mu verifsim.Mutex
		cond := verifsim.NewCond(&mu)
		ready, seen := 0, 0
		nw := 1 + c.Intn(3)
		for t := 0; t < nw; t++ {
			s.Go(func() {
				mu.Lock()
				for ready == 0 {
					cond.Wait()
				}
				ready--
				seen++
				mu.Unlock()
			})
		}
		s.Go(func() {
			for i := 0; i < nw; i++ {
				verifsim.Yield(verifsim.YHost, 0)
				mu.Lock()
				ready++
				mu.Unlock()
				cond.Signal()
			}
		})
		check = func() string {
			if seen != nw {
				return fmt.Sprintf("seen=%d want %d", seen, nw)
			}
			return ""
		}
	case 3: // lock-order inversion: may deadlock, must never hang or corrupt
		name = "lock-order inversion"
		var a, b verifsim.Mutex
		done := 0
		s.Go(func() { a.Lock(); verifsim.Yield(verifsim.YHost, 0); b.Lock(); done++; b.Unlock(); a.Unlock() })
		s.Go(func() { b.Lock(); verifsim.Yield(verifsim.YHost, 0); a.Lock(); done++; a.Unlock(); b.Unlock() })
		check = func() string {
			if s.Deadlock {
				st.probe("simtest-deadlock-detected")
				return ""
			}
			if done != 2 {
				return fmt.Sprintf("no deadlock reported but only %d of 2 tasks finished", done)
			}
			return ""
		}
		expectDeadlock = true
	case 4: // RWMutex: readers never see a half-written pair
		name = "rwmutex"
		var mu verifsim.RWMutex
		x, y := 0, 0
		bad := 0
		for t := 0; t < 1+c.Intn(3); t++ {
			s.Go(func() {
				for i := 0; i < 3; i++ {
					mu.RLock()
					vx := x
					verifsim.Yield(verifsim.YHost, 0)
					if vx != y {
						bad++
					}
					mu.RUnlock()
				}
			})
		}
		s.Go(func() {
			for i := 0; i < 3; i++ {
				mu.Lock()
				x++
				verifsim.Yield(verifsim.YHost, 0)
				y++
				mu.Unlock()
			}
		})
		check = func() string {
			if bad != 0 || x != 3 || y != 3 {
				return fmt.Sprintf("bad=%d x=%d y=%d", bad, x, y)
			}
			return ""
		}
	case 5: // channel used as a semaphore, with a real deadlock when nobody releases
		name = "channel semaphore"
		sem := make(chan struct{}, 1)
		inside, maxInside, finished := 0, 0, 0
		n := 2 + c.Intn(3)
		leak := c.Intn(25) == 1
		for t := 0; t < n; t++ {
			t := t
			s.Go(func() {
				verifsim.ChanSend(sem, struct{}{})
				inside++
				if inside > maxInside {
					maxInside = inside
				}
				verifsim.Yield(verifsim.YHost, 0)
				inside--
				if !(leak && t == 0) {
					verifsim.ChanRecv(sem)
				}
				finished++
			})
		}
		expectDeadlock = leak
		check = func() string {
			if maxInside > 1 {
				return fmt.Sprintf("%d tasks inside the semaphore at once", maxInside)
			}
			if leak {
				if !s.Deadlock && finished != n {
					return "a leaked semaphore slot neither deadlocked nor let everybody finish"
				}
				return ""
			}
			if s.Deadlock || finished != n {
				return fmt.Sprintf("deadlock=%v finished=%d of %d", s.Deadlock, finished, n)
			}
			return ""
		}
	case 7: // Once: the function runs exactly once, nobody passes Do before it has finished
		name = "once"
		var once verifsim.Once
		ran, early := 0, 0
		finished := false
		for t := 0; t < 2+c.Intn(4); t++ {
			s.Go(func() {
				once.Do(func() {
					ran++
					verifsim.Yield(verifsim.YHost, 0)
					verifsim.Yield(verifsim.YHost, 0)
					finished = true
				})
				if !finished {
					early++
				}
			})
		}
		check = func() string {
			if ran != 1 || early != 0 {
				return fmt.Sprintf("once ran %d times, %d callers got past Do before it had finished", ran, early)
			}
			return ""
		}
	case 8: // goroutines started from inside a task, WaitGroup
		name = "spawn and waitgroup"
		var wg verifsim.WaitGroup
		var mu verifsim.Mutex
		n := 1 + c.Intn(5)
		sum, after := 0, -1
		s.Go(func() {
			for i := 1; i <= n; i++ {
				i := i
				wg.Add(1)
				verifsim.Go(func() {
					defer wg.Done()
					verifsim.Yield(verifsim.YHost, 0)
					mu.Lock()
					sum += i
					mu.Unlock()
				})
			}
			wg.Wait()
			after = sum
		})
		check = func() string {
			if after != n*(n+1)/2 {
				return fmt.Sprintf("after Wait the sum was %d, want %d (%d spawned)", after, n*(n+1)/2, s.Spawned)
			}
			if s.Spawned != n {
				return fmt.Sprintf("%d goroutines scheduled, want %d", s.Spawned, n)
			}
			return ""
		}
	case 9: // timers: callbacks in the order of their instants, After wakes a waiting task, time jumps when all wait
		name = "timers"
		var mu verifsim.Mutex
		var order []int
		d1, d2 := time.Duration(1+c.Intn(50))*time.Millisecond, time.Duration(60+c.Intn(50))*time.Millisecond
		got := false
		stopped := false
		s.Go(func() {
			verifsim.AfterFunc(d2, func() { mu.Lock(); order = append(order, 2); mu.Unlock() })
			verifsim.AfterFunc(d1, func() { mu.Lock(); order = append(order, 1); mu.Unlock() })
			t3 := verifsim.AfterFunc(d1/2+1, func() { mu.Lock(); order = append(order, 3); mu.Unlock() })
			stopped = t3.Stop()
			start := verifsim.Now()
			verifsim.ChanRecv(verifsim.After(d2 + time.Millisecond))
			got = verifsim.Since(start) >= d2+time.Millisecond
		})
		check = func() string {
			mu.Lock()
			defer mu.Unlock()
			if !got || !stopped || len(order) != 2 || order[0] != 1 || order[1] != 2 {
				return fmt.Sprintf("timer callbacks ran in order %v (want [1 2]), After elapsed=%v, Stop=%v", order, got, stopped)
			}
			return ""
		}
	case 10: // a goroutine that never ends does not keep the simulation alive once the main task is done
		name = "stop when the main task is done"
		beats := 0
		s.StopWhen = s.Go(func() {
			verifsim.Go(func() {
				for {
					beats++
					verifsim.Sleep(time.Millisecond)
				}
			})
			for i := 0; i < 5; i++ {
				verifsim.Yield(verifsim.YHost, 0)
			}
		})
		check = func() string {
			if s.Leftover != 1 {
				return fmt.Sprintf("leftover=%d want 1", s.Leftover)
			}
			return ""
		}
	default: // pool: every object handed out is either new or was put back before
		name = "pool"
		var pool verifsim.Pool
		made := 0
		pool.New = func() any { made++; v := new(int); return v }
		var mu verifsim.Mutex
		out := map[*int]bool{}
		dup := false
		for t := 0; t < 2+c.Intn(3); t++ {
			s.Go(func() {
				for i := 0; i < 3; i++ {
					v := pool.Get().(*int)
					mu.Lock()
					if out[v] {
						dup = true
					}
					out[v] = true
					mu.Unlock()
					verifsim.Yield(verifsim.YHost, 0)
					mu.Lock()
					delete(out, v)
					mu.Unlock()
					pool.Put(v)
				}
			})
		}
		check = func() string {
			if dup {
				return "the pool handed one object to two users at once"
			}
			return ""
		}
	}
	setDesc("simtest " + name)
	s.Run()
	o.Digest.U64(s.D.H)
	o.Ticks = int64(s.Steps)
	o.Nontrivial = s.Switches > 0
	st.probe("scenario:" + name)
	st.probe(fmt.Sprintf("policy-%d", s.Policy))
	if s.Deadlock {
		// (the parked tasks only hold this scenario's own locks: the process
		// stays usable)
		if s.DeadlockUncertain {
			o.violate("SIMTEST/harness", name+" uncertain deadlock", "a deadlock among exactly modelled operations was classified as uncertain")
			return o
		}
		if !expectDeadlock {
			o.violate("SIMTEST/harness", name+" spurious deadlock", "the scheduler reported a deadlock in a program that cannot deadlock (policy %d)", s.Policy)
			return o
		}
	}
	if s.Aborted {
		o.violate("SIMTEST/harness", name+" step cap", "the program did not finish within the step cap (livelock in the simulator?) (policy %d)", s.Policy)
		return o
	}
	if msg := check(); msg != "" {
		o.violate("SIMTEST/harness", name, "%s (policy %d)", msg, s.Policy)
	}
	if render {
		o.Sample = map[string]interface{}{"scenario": name, "policy": s.Policy, "yields": s.Steps, "switches": s.Switches, "deadlock": s.Deadlock}
	}
	return o
}
