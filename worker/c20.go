package main

import (
	"fmt"
	"strings"

	evalfilter "github.com/skx/evalfilter/v2"
	"github.com/skx/evalfilter/v2/object"
	"github.com/skx/evalfilter/v2/verifsim"
)

// C20 — the embedding API and the command-line driver are faithful front
// ends (DESIGN 3/C20).  This file: (a) API call histories against a small
// reference model.  c20drv.go: (b) the driver inside the simulated file
// system and clock.

// ---- probe scripts: straight-line, with an independent reference evaluator ----

type pexpr struct {
	kind string // lit, var, call, add, eq
	lit  pval
	name string
	args []*pexpr
}

type pstmt struct {
	kind   string // assign, call, return
	target string
	e      *pexpr
}

// pval is a model value: type name, printed form, truth.
type pval struct {
	typ   string
	text  string
	truth bool
	void  bool
	ival  int64
	isInt bool
}

func (v pval) show() string { return v.typ + ":" + v.text }

var pNull = pval{typ: "NULL", text: "null"}

func pInt(n int64) pval      { return pval{typ: "INTEGER", text: fmt.Sprint(n), truth: n > 0, ival: n, isInt: true} }
func pStr(s string) pval     { return pval{typ: "STRING", text: s, truth: s != ""} }
func pBool(b bool) pval      { return pval{typ: "BOOLEAN", text: fmt.Sprint(b), truth: b} }
func pFloat(t string, pos bool) pval { return pval{typ: "FLOAT", text: t, truth: pos} }

// host function kinds: what the function returns
var c20FnKinds = []string{"regexp", "foreign", "echo", "int", "string", "bool-false", "null", "void", "float", "array", "hash", "count", "panic", "empty-string", "zero", "negative", "collect", "collect", "getvar", "setvar"}

type c20Model struct {
	// unspecified is set when the script used "nothing" (a void result)
	// where a value is needed: the property does not say what must happen
	unspecified bool
	vars        map[string]pval
	fns    map[string]string // name -> kind
	counts map[string]int64
	trace  []string
}

func (m *c20Model) callResult(kind string, name string, args []pval) (pval, bool) {
	switch kind {
	case "echo":
		if len(args) > 0 {
			return args[0], false
		}
		return pNull, false
	case "int":
		return pInt(42), false
	case "string":
		return pStr("res"), false
	case "empty-string":
		return pStr(""), false
	case "bool-false":
		return pBool(false), false
	case "null":
		return pNull, false
	case "void":
		return pval{void: true}, false
	case "float":
		return pFloat("2.5", true), false
	case "zero":
		return pInt(0), false
	case "negative":
		return pFloat("-1.5", false), false
	case "array":
		return pval{typ: "ARRAY", text: "[1, two]", truth: true}, false
	case "hash":
		return pval{typ: "HASH", text: "{k: 1}", truth: true}, false
	case "regexp":
		return pval{typ: "REGEXP", text: "ab+", truth: true}, false
	case "foreign":
		return pval{typ: "FOREIGN", text: "<foreign 3>", truth: true}, false
	case "count":
		m.counts[name]++
		return pInt(m.counts[name]), false
	case "collect":
		// returns an array holding exactly its arguments (the host keeps the
		// argument slice it was given)
		parts := make([]string, len(args))
		for i, a := range args {
			parts[i] = a.text
		}
		return pval{typ: "ARRAY", text: "[" + strings.Join(parts, ", ") + "]", truth: len(args) > 0}, false
	case "getvar":
		// the host function reads a variable of its own evaluator
		if v, ok := m.vars[c20VarNames[0]]; ok {
			return v, false
		}
		return pNull, false
	case "setvar":
		// … or stores one (what it was given, or 9)
		v := pInt(9)
		if len(args) > 0 && !args[0].void {
			v = args[0]
		}
		m.vars[c20VarNames[3]] = v
		return pStr("set"), false
	case "panic":
		return pval{}, true
	}
	return pNull, false
}

// eval returns the value, and failed=true if the engine must report an error.
func (m *c20Model) eval(e *pexpr, fields map[string]pval) (pval, bool) {
	switch e.kind {
	case "lit":
		return e.lit, false
	case "var":
		if v, ok := m.vars[e.name]; ok {
			return v, false
		}
		if v, ok := fields[e.name]; ok {
			return v, false
		}
		return pNull, false
	case "call":
		var args []pval
		for _, a := range e.args {
			v, failed := m.eval(a, fields)
			if failed {
				return pval{}, true
			}
			if v.void {
				// nothing was produced where a value is needed
				m.unspecified = true
				return pval{}, true
			}
			args = append(args, v)
		}
		kind, ok := m.fns[e.name]
		if !ok && e.name == "len" && len(args) == 1 && args[0].typ == "STRING" {
			// the built-in, as long as the host has not registered its own
			return pInt(int64(len([]rune(args[0].text)))), false
		}
		if !ok {
			return pval{}, true // unknown function: run-time error
		}
		var sb strings.Builder
		sb.WriteString(e.name + "(")
		for i, a := range args {
			if i > 0 {
				sb.WriteString(", ")
			}
			sb.WriteString(a.show())
		}
		sb.WriteString(")")
		m.trace = append(m.trace, sb.String())
		return m.callResult(kind, e.name, args)
	case "arr":
		var parts []string
		for _, a := range e.args {
			v, failed := m.eval(a, fields)
			if failed {
				return pval{}, true
			}
			if v.void {
				m.unspecified = true
				return pval{}, true
			}
			parts = append(parts, v.text)
		}
		return pval{typ: "ARRAY", text: "[" + strings.Join(parts, ", ") + "]", truth: len(parts) > 0}, false
	case "ucall":
		// uf(a): the script's own function `function uf(a) { v2 = a; return a; }`
		v, failed := m.eval(e.args[0], fields)
		if failed {
			return pval{}, true
		}
		if v.void {
			m.unspecified = true
			return pval{}, true
		}
		m.vars["v2"] = v
		return v, false
	case "add":
		a, f1 := m.eval(e.args[0], fields)
		if f1 {
			return pval{}, true
		}
		b, f2 := m.eval(e.args[1], fields)
		if f2 {
			return pval{}, true
		}
		if a.void || b.void || !a.isInt || !b.isInt {
			return pval{}, true
		}
		return pInt(a.ival + b.ival), false
	case "eq":
		a, f1 := m.eval(e.args[0], fields)
		if f1 {
			return pval{}, true
		}
		b, f2 := m.eval(e.args[1], fields)
		if f2 {
			return pval{}, true
		}
		if a.void || b.void || !a.isInt || !b.isInt {
			return pval{}, true
		}
		return pBool(a.ival == b.ival), false
	}
	return pNull, false
}

// run executes the statements; returns the result (Null if no return) and failure.
func (m *c20Model) run(stmts []*pstmt, fields map[string]pval) (pval, bool) {
	m.trace = nil
	m.unspecified = false
	for _, s := range stmts {
		v, failed := m.eval(s.e, fields)
		if failed {
			return pval{}, true
		}
		switch s.kind {
		case "assign":
			if v.void {
				m.unspecified = true
				return pval{}, true
			}
			m.vars[s.target] = v
		case "return":
			if v.void {
				m.unspecified = true
				return pval{}, true
			}
			return v, false
		case "call":
			// statement position: only void functions are used here
		}
	}
	return pNull, false
}

func (e *pexpr) text() string {
	switch e.kind {
	case "lit":
		if e.lit.typ == "STRING" {
			return "\"" + e.lit.text + "\""
		}
		if e.lit.typ == "REGEXP" {
			return "/" + e.lit.text + "/"
		}
		return e.lit.text
	case "var":
		return e.name
	case "call":
		var parts []string
		for _, a := range e.args {
			parts = append(parts, a.text())
		}
		return e.name + "(" + strings.Join(parts, ", ") + ")"
	case "arr":
		var parts []string
		for _, a := range e.args {
			parts = append(parts, a.text())
		}
		return "[" + strings.Join(parts, ", ") + "]"
	case "ucall":
		return "uf(" + e.args[0].text() + ")"
	case "add":
		return "(" + e.args[0].text() + " + " + e.args[1].text() + ")"
	case "eq":
		return "(" + e.args[0].text() + " == " + e.args[1].text() + ")"
	}
	return "?"
}

var c20VarNames = []string{"v0", "v1", "v2", "v3", "neverset", "OPTIMIZE"}
var c20FnNames = []string{"fa", "fb", "fc", "fd"}

type c20Gen struct {
	useUF  bool // the script defines `function uf(a) { v2 = a; return a; }`
	c      *verifsim.Chooser
	fnKind map[string]string
	intVar map[string]bool // variables known to hold integers in every history
}

func (g *c20Gen) lit() pval {
	switch g.c.Intn(6) {
	case 0:
		return pInt(int64(g.c.Intn(5)))
	case 1:
		return pStr([]string{"s", "", "two words"}[g.c.Intn(3)])
	case 2:
		return pBool(g.c.Bool())
	case 3:
		return pInt(70000)
	case 4:
		return pFloat("1.5", true)
	default:
		return pInt(0)
	}
}

func pRegexp(t string) pval { return pval{typ: "REGEXP", text: t, truth: t != ""} }

// value is what SetVariable may store: every type, null included.
func (g *c20Gen) value() pval {
	switch g.c.Intn(5) {
	case 0:
		return pNull
	case 1:
		return pval{typ: "ARRAY", text: "[1, two]", truth: true}
	case 2:
		return pval{typ: "HASH", text: "{k: 1}", truth: true}
	default:
		return g.lit()
	}
}

func (g *c20Gen) valueFn() string {
	// a registered function that returns a value
	var names []string
	for _, n := range c20FnNames {
		if k, ok := g.fnKind[n]; ok && k != "void" && k != "panic" {
			names = append(names, n)
		}
	}
	if len(names) == 0 {
		return ""
	}
	return names[g.c.Intn(len(names))]
}

// intOperand is an expression that certainly yields an integer.
func (g *c20Gen) intOperand() *pexpr {
	if g.c.Intn(5) == 1 {
		// len of a string literal: the built-in, unless the host registered
		// a function of that name
		return &pexpr{kind: "call", name: "len", args: []*pexpr{{kind: "lit", lit: pStr([]string{"héllo", "", "abc"}[g.c.Intn(3)])}}}
	}
	if g.c.Intn(3) == 1 {
		var names []string
		for _, n := range c20FnNames {
			if k := g.fnKind[n]; k == "int" || k == "count" || k == "zero" {
				names = append(names, n)
			}
		}
		if len(names) > 0 {
			e := &pexpr{kind: "call", name: names[g.c.Intn(len(names))]}
			for j := g.c.Intn(2); j > 0; j-- {
				e.args = append(e.args, &pexpr{kind: "lit", lit: g.lit()})
			}
			return e
		}
	}
	return &pexpr{kind: "lit", lit: pInt(int64(g.c.Intn(4)))}
}

func (g *c20Gen) expr(d int) *pexpr {
	if g.c.Intn(12) == 1 {
		return &pexpr{kind: "lit", lit: pRegexp([]string{"ab+", "^x", "a|b"}[g.c.Intn(3)])}
	}
	switch g.c.Intn(8) {
	case 6:
		if d <= 0 {
			return &pexpr{kind: "lit", lit: g.lit()}
		}
		e := &pexpr{kind: "arr"}
		for j := g.c.Intn(4); j > 0; j-- {
			e.args = append(e.args, g.expr(d-1))
		}
		return e
	case 7:
		if !g.useUF || d <= 0 {
			return &pexpr{kind: "var", name: c20VarNames[g.c.Intn(5)]}
		}
		return &pexpr{kind: "ucall", args: []*pexpr{g.expr(d - 1)}}
	case 0:
		return &pexpr{kind: "lit", lit: g.lit()}
	case 1:
		return &pexpr{kind: "var", name: c20VarNames[g.c.Intn(5)]}
	case 2, 3:
		fn := g.valueFn()
		if fn == "" || d <= 0 {
			return &pexpr{kind: "lit", lit: g.lit()}
		}
		n := g.c.Intn(4)
		if g.c.Intn(6) == 1 {
			n = 5
		}
		e := &pexpr{kind: "call", name: fn}
		for i := 0; i < n; i++ {
			e.args = append(e.args, g.expr(d-1))
		}
		return e
	case 4:
		return &pexpr{kind: "add", args: []*pexpr{g.intOperand(), g.intOperand()}}
	default:
		return &pexpr{kind: "eq", args: []*pexpr{g.intOperand(), g.intOperand()}}
	}
}

func (g *c20Gen) script() ([]*pstmt, string) {
	var stmts []*pstmt
	n := 1 + g.c.Intn(5)
	for i := 0; i < n; i++ {
		switch g.c.Intn(5) {
		case 0, 1:
			stmts = append(stmts, &pstmt{kind: "assign", target: c20VarNames[g.c.Intn(4)], e: g.expr(2)})
		case 2:
			// statement-position call of a void (or panicking) function
			var cands []string
			for _, f := range c20FnNames {
				if k := g.fnKind[f]; k == "void" || k == "panic" {
					cands = append(cands, f)
				}
			}
			if len(cands) == 0 {
				stmts = append(stmts, &pstmt{kind: "assign", target: "v0", e: g.expr(1)})
				break
			}
			e := &pexpr{kind: "call", name: cands[g.c.Intn(len(cands))]}
			for j := g.c.Intn(3); j > 0; j-- {
				e.args = append(e.args, g.expr(1))
			}
			stmts = append(stmts, &pstmt{kind: "call", e: e})
		case 3:
			// a void result where a value is needed (expected: an error)
			var cands []string
			for _, f := range c20FnNames {
				if g.fnKind[f] == "void" {
					cands = append(cands, f)
				}
			}
			if len(cands) == 0 || g.c.Intn(8) != 1 {
				stmts = append(stmts, &pstmt{kind: "assign", target: c20VarNames[g.c.Intn(4)], e: g.expr(2)})
				break
			}
			stmts = append(stmts, &pstmt{kind: "assign", target: "v3", e: &pexpr{kind: "call", name: cands[0]}})
		default:
			if g.c.Intn(12) == 1 {
				stmts = append(stmts, &pstmt{kind: "assign", target: "v1", e: &pexpr{kind: "call", name: "nosuchfn", args: []*pexpr{{kind: "lit", lit: pInt(1)}}}})
			} else {
				stmts = append(stmts, &pstmt{kind: "assign", target: c20VarNames[g.c.Intn(4)], e: g.expr(1)})
			}
		}
	}
	if g.c.Intn(5) != 4 {
		stmts = append(stmts, &pstmt{kind: "return", e: g.expr(2)})
	}
	var sb strings.Builder
	if g.useUF {
		sb.WriteString("function uf(a) { v2 = a; return a; }\n")
	}
	for _, s := range stmts {
		switch s.kind {
		case "assign":
			sb.WriteString(s.target + " = " + s.e.text() + ";\n")
		case "call":
			sb.WriteString(s.e.text() + ";\n")
		case "return":
			sb.WriteString("return " + s.e.text() + ";\n")
		}
	}
	return stmts, sb.String()
}

// ---- the property ----

type c20 struct {
	drv *c20drv
}

func newC20() Prop { return &c20{drv: newC20drv()} }

func init() { propFactories["C20"] = newC20 }

func (p *c20) ID() string { return "C20" }

func (p *c20) Enumerate(tier string) [][]int32 { return p.drv.enumerate(tier) }

func (p *c20) RandomRuns(tier string) int {
	if tier == "thorough" {
		return 6000000
	}
	return 200000
}

func (p *c20) Extra() map[string]interface{} { return p.drv.extra() }

type c20Side struct {
	name  string
	e     *evalfilter.Eval
	opt   bool
	run   bool
	trace []string
	cnt   map[string]int64
	ctx   *verifsim.SimContext
}

func c20Object(v pval) object.Object {
	switch v.typ {
	case "INTEGER":
		return &object.Integer{Value: v.ival}
	case "STRING":
		return &object.String{Value: v.text}
	case "BOOLEAN":
		return &object.Boolean{Value: v.truth}
	case "FLOAT":
		var f float64
		fmt.Sscan(v.text, &f)
		return &object.Float{Value: f}
	case "ARRAY":
		return &object.Array{Elements: []object.Object{&object.Integer{Value: 1}, &object.String{Value: "two"}}}
	case "REGEXP":
		return &object.Regexp{Value: v.text}
	case "FOREIGN":
		return &foreign{3}
	case "HASH":
		k := &object.String{Value: "k"}
		return &object.Hash{Pairs: map[object.HashKey]object.HashPair{k.HashKey(): {Key: k, Value: &object.Integer{Value: 1}}}}
	}
	return &object.Null{}
}

func (s *c20Side) addFn(name, kind string, m *c20Model) {
	s.e.AddFunction(name, func(args []object.Object) object.Object {
		var sb strings.Builder
		sb.WriteString(name + "(")
		for i, a := range args {
			if i > 0 {
				sb.WriteString(", ")
			}
			sb.WriteString(show(a))
		}
		sb.WriteString(")")
		s.trace = append(s.trace, sb.String())
		switch kind {
		case "echo":
			if len(args) > 0 {
				return args[0]
			}
			return &object.Null{}
		case "void":
			return &object.Void{}
		case "panic":
			panic("host function " + name + " panics")
		case "count":
			s.cnt[name]++
			return &object.Integer{Value: s.cnt[name]}
		case "collect":
			return &object.Array{Elements: args}
		case "getvar":
			// a host function that calls back into its own evaluator
			return s.e.GetVariable(c20VarNames[0])
		case "setvar":
			var v object.Object = &object.Integer{Value: 9}
			if len(args) > 0 {
				if _, isVoid := args[0].(*object.Void); !isVoid {
					v = args[0]
				}
			}
			s.e.SetVariable(c20VarNames[3], v)
			return &object.String{Value: "set"}
		}
		// the model's value for this kind, as an engine object
		tmp := &c20Model{counts: map[string]int64{}}
		v, _ := tmp.callResult(kind, name, nil)
		return c20Object(v)
	})
}

func (p *c20) Run(c *verifsim.Chooser, st *Stats, render bool) *Outcome {
	switch c.Intn(6) {
	case 1:
		return p.drv.run(c, st, render)
	case 2, 3:
		return p.runOptDiff(c, st, render)
	}
	return p.runAPI(c, st, render)
}

func (p *c20) runAPI(c *verifsim.Chooser, st *Stats, render bool) *Outcome {
	o := &Outcome{}
	setDesc("API history")
	g := &c20Gen{c: c, fnKind: map[string]string{}}
	// functions registered before Prepare
	nf := 1 + c.Intn(4)
	for i := 0; i < nf; i++ {
		g.fnKind[c20FnNames[i]] = c20FnKinds[c.Intn(len(c20FnKinds))]
	}
	g.useUF = c.Intn(3) == 1
	lenKind := ""
	if c.Intn(3) == 1 {
		// the host overrides the built-in len (with an integer-valued function)
		lenKind = []string{"int", "count", "zero"}[c.Intn(3)]
	}
	stmts, text := g.script()
	o.Digest.Str(text)
	model := &c20Model{vars: map[string]pval{}, fns: map[string]string{}, counts: map[string]int64{}}
	sides := []*c20Side{{name: "optimized/Execute", opt: true}, {name: "NoOptimize/Execute", opt: false}, {name: "optimized/Run", opt: true, run: true}}
	for _, s := range sides {
		s.e = evalfilter.New(text)
		s.cnt = map[string]int64{}
	}
	var hist []string
	log := func(f string, a ...interface{}) {
		if render {
			hist = append(hist, fmt.Sprintf(f, a...))
		}
	}
	defer func() {
		if render {
			o.Sample = map[string]interface{}{"mode": "API history", "script": text, "history": hist}
		}
	}()

	setVar := func(name string, v pval) {
		model.vars[name] = v
		for _, s := range sides {
			s.e.SetVariable(name, c20Object(v))
		}
		log("SetVariable(%s, %s)", name, v.show())
	}
	addFn := func(name, kind string) {
		model.fns[name] = kind
		for _, s := range sides {
			s.addFn(name, kind, model)
		}
		log("AddFunction(%s -> %s)", name, kind)
	}
	// pre-Prepare operations in a drawn order
	for name, kind := range g.fnKind {
		_ = name
		_ = kind
	}
	for i := 0; i < nf; i++ {
		if c.Bool() {
			addFn(c20FnNames[i], g.fnKind[c20FnNames[i]])
		}
	}
	if lenKind != "" && c.Bool() {
		addFn("len", lenKind)
		lenKind = ""
	}
	for i := c.Intn(3); i > 0; i-- {
		setVar(c20VarNames[c.Intn(4)], g.value())
	}
	// 0 none, 1 sim context that never cancels, 2 expired, 3 cancels at tick k
	ctxKind := []int{0, 0, 0, 1, 1, 2, 3, 0}[c.Intn(8)]
	cancelAt := int64(-1)
	if ctxKind == 2 {
		cancelAt = 0
	} else if ctxKind == 3 {
		cancelAt = int64(1 + c.Intn(12))
	}
	if ctxKind != 0 {
		for _, s := range sides {
			s.ctx = verifsim.NewSimContext(cancelAt)
			s.e.SetContext(s.ctx)
		}
		log("SetContext(sim, cancel at tick %d)", cancelAt)
	}
	flip := false
	freshDump := map[bool]string{}
	prepare := func() bool {
		ok := true
		for _, s := range sides {
			opt := s.opt
			if flip {
				opt = !opt
			}
			err, esc := doPrepare(s.e, opt)
			if esc != nil {
				o.violate("C20/api-model", "Prepare panics", "%s: %s", s.name, esc.Value)
				ok = false
			} else if err != nil {
				o.violate("C20/api-model", "Prepare rejects probe script", "%s: %v\n%s", s.name, err, text)
				ok = false
			} else {
				// the flags of THIS Prepare decide: the program must be the
				// one a new evaluator gets for the same text and flags
				if _, have := freshDump[opt]; !have {
					f := evalfilter.New(text)
					if e2, esc2 := doPrepare(f, opt); e2 == nil && esc2 == nil {
						d, _, _ := doDump(f)
						freshDump[opt] = normDump(d)
					}
				}
				d, _, _ := doDump(s.e)
				if want, have := freshDump[opt]; have && normDump(d) != want {
					how := "with NoOptimize"
					if opt {
						how = "without NoOptimize"
					}
					o.violate("C20/no-optimize", "flags of an earlier Prepare persist", "%s: prepared %s (after earlier Prepare calls on the same evaluator) the program differs from the one a new evaluator gets for the same text and flags:\n%s\nscript:\n%s", s.name, how, firstDiff(want, normDump(d)), text)
					ok = false
				}
			}
		}
		log("Prepare")
		return ok
	}
	if !prepare() {
		return o
	}
	if lenKind != "" {
		addFn("len", lenKind)
	}
	// functions registered after Prepare, variables set after Prepare
	for i := 0; i < nf; i++ {
		if _, done := model.fns[c20FnNames[i]]; !done {
			addFn(c20FnNames[i], g.fnKind[c20FnNames[i]])
		}
	}
	nops := 2 + c.Intn(7)
	stop := func() bool {
		for _, v := range o.V {
			if v.Sig != "GetVariable(OPTIMIZE)" {
				return true
			}
		}
		return false
	}
	for i := 0; i < nops && !stop(); i++ {
		switch c.Intn(7) {
		case 6:
			// register a function again under a name that is already taken
			// (replacing the earlier one), without preparing again
			name := c20FnNames[c.Intn(nf)]
			kind := c20FnKinds[c.Intn(len(c20FnKinds))]
			// the script was generated for functions of a certain class
			// (statement-position: void/panic; integer-valued: operands of +
			// and ==; any other value): stay within the class
			class := func(k string) int {
				switch k {
				case "void", "panic":
					return 0
				case "int", "count", "zero":
					return 1
				}
				return 2
			}
			if class(g.fnKind[name]) != class(kind) {
				break
			}
			g.fnKind[name] = kind
			addFn(name, kind)
		case 0:
			setVar(c20VarNames[c.Intn(4)], g.value())
		case 1:
			name := c20VarNames[c.Intn(len(c20VarNames))]
			want := pNull
			if v, ok := model.vars[name]; ok {
				want = v
			}
			for _, s := range sides {
				got := show(s.e.GetVariable(name))
				if got != want.show() {
					sig := "GetVariable"
					if name == "OPTIMIZE" {
						sig = "GetVariable(OPTIMIZE)"
					}
					o.violate("C20/api-model", sig, "%s: GetVariable(%q) = %s, the model (last SetVariable / script assignment, null if never) says %s", s.name, name, got, want.show())
					break
				}
			}
			log("GetVariable(%s) = %s", name, want.show())
		case 2:
			switch c.Intn(4) {
			case 1:
				if !prepare() {
					return o
				}
			case 2:
				// Prepare again with the other optimizer setting
				flip = !flip
				log("(optimizer settings swapped)")
				if !prepare() {
					return o
				}
			case 3:
				// a new context, installed the documented way: SetContext, Prepare
				if ctxKind != 0 {
					break
				}
				ctxKind, cancelAt = 2, 0
				for _, s := range sides {
					s.ctx = verifsim.NewSimContext(cancelAt)
					s.e.SetContext(s.ctx)
				}
				log("SetContext(sim, already expired) + Prepare")
				if !prepare() {
					return o
				}
			}
		default:
			// a run: Execute on two evaluators, Run on the third
			fields := map[string]pval{}
			var obj interface{}
			if c.Bool() {
				obj = map[string]interface{}{"neverset": 7, "v0": 100}
				fields["neverset"] = pInt(7)
				fields["v0"] = pInt(100)
			}
			for _, s := range sides {
				s.trace = nil
				if s.ctx != nil {
					s.ctx.Rearm(cancelAt)
				}
			}
			// what the model expects; a cancelled context is decided by
			// comparing the three evaluators among themselves
			saved := map[string]pval{}
			for k, v := range model.vars {
				saved[k] = v
			}
			savedCounts := map[string]int64{}
			for k, v := range model.counts {
				savedCounts[k] = v
			}
			want, wantFail := model.run(stmts, fields)
			var rs [3]Result
			for j, s := range sides {
				j, s := j, s
				under(s.ctx, func() {
					if s.run {
						rs[j] = doRun(s.e, obj)
					} else {
						rs[j] = doExecute(s.e, obj)
					}
				})
				if rs[j].Escaped != nil {
					o.violate("C20/api-model", "panic", "%s: %s", s.name, rs[j].Escaped.Value)
				}
			}
			if stop() {
				break
			}
			o.Nontrivial = true
			log("run(obj=%v): model %s fail=%v | %s | %s | %s", obj != nil, want.show(), wantFail, rs[0].String(), rs[1].String(), rs[2].String())
			cancelled := ctxKind >= 2 && (sides[0].ctx.Fired() || sides[1].ctx.Fired() || sides[2].ctx.Fired())
			if cancelled {
				st.fault("context-cancelled")
				// NoOptimize changes instruction counts, so a tick-based
				// deadline may cut the two programs at different points;
				// only Run-vs-Execute (same program) is compared, and the
				// model is resynchronised from the engine
				if rs[0].Failed != rs[2].Failed {
					o.violate("C20/run-vs-execute", "fails-differently", "under the same cancellation Execute gives %s and Run gives %s", rs[0].String(), rs[2].String())
				}
				for _, n := range c20VarNames[:4] {
					v := sides[0].e.GetVariable(n)
					if show(sides[2].e.GetVariable(n)) != show(v) {
						o.violate("C20/run-vs-execute", "variables-differ", "after a cancelled run variable %s is %s via Execute and %s via Run", n, show(v), show(sides[2].e.GetVariable(n)))
					}
				}
				// stop the history: the three evaluators may legitimately
				// have diverged in state from here on
				return o
			}
			if model.unspecified {
				// only "no panic" (checked above) and Run-vs-Execute agreement
				// are required of this run; the history ends here
				st.probe("void-used-as-a-value")
				if rs[0].Failed != rs[2].Failed {
					o.violate("C20/run-vs-execute", "fails-differently", "Execute gives %s and Run gives %s", rs[0].String(), rs[2].String())
				}
				return o
			}
			if wantFail {
				st.fault("model-expects-error")
			}
			for j, s := range sides {
				r := rs[j]
				if r.Failed != wantFail {
					o.violate("C20/api-model", "run fails="+fmt.Sprint(r.Failed)+" model fails="+fmt.Sprint(wantFail), "%s: got %s, the model says fail=%v value=%s\nscript:\n%s", s.name, r.String(), wantFail, want.show(), text)
					break
				}
				if !wantFail {
					if s.run {
						if r.Truth != want.truth {
							o.violate("C20/run-vs-execute", "truth of "+want.typ, "Run returned %v for a script whose Execute result is %s", r.Truth, want.show())
							break
						}
					} else if r.Out != want.show() {
						o.violate("C20/api-model", "Execute result", "%s: Execute returned %s, the model says %s\nscript:\n%s", s.name, r.Out, want.show(), text)
						break
					}
				}
				if joinTrace(s.trace) != joinTrace(model.trace) {
					o.violate("C20/api-model", "host calls", "%s: host functions were called as [%s], the model says [%s]\nscript:\n%s", s.name, joinTrace(s.trace), joinTrace(model.trace), text)
					break
				}
			}
			if !stop() {
				for _, n := range c20VarNames[:4] {
					wantV := pNull
					if v, ok := model.vars[n]; ok {
						wantV = v
					}
					for _, s := range sides {
						if got := show(s.e.GetVariable(n)); got != wantV.show() {
							o.violate("C20/api-model", "variable after run", "%s: after the run %s is %s, the model says %s\nscript:\n%s", s.name, n, got, wantV.show(), text)
							break
						}
					}
				}
			}
			_ = saved
			_ = savedCounts
			o.Digest.Str(rs[0].String())
		}
	}
	return o
}
