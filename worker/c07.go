package main

import (
	"fmt"
	"strings"

	evalfilter "github.com/skx/evalfilter/v2"
	"github.com/skx/evalfilter/v2/object"
	"github.com/skx/evalfilter/v2/verifsim"
)

// C07 — a prepared script carries no hidden state from one run to the next
// (DESIGN 3/C07).  A case is a history of runs on one long-lived evaluator L;
// every run is also executed on a fresh evaluator F_i that was given L's
// visible global variables.  Faults (cancellation at a chosen tick, host
// panics, nil results, script errors) end runs at arbitrary points.

const (
	c07FootprintSlack = 8
	c07TickSlack      = 16
	c07WorkSlack      = 64
	c07HardCap   = 40000
)

var c07Corpus = []string{
	`if (!n) { n = 0; } n++; hv(n); return n;`,
	`function f(a) { local t; t = 0; foreach x in 1..a { t = t + x; hv(t); } return t; } total = f(A + 3); return total;`,
	`function find(arr, y) { foreach i, x in arr { if (x == y) { return i; } } return -1; } r = find([1, 2, 3], 2); hv(r); return r;`,
	`foreach x in [1, 2, 3] { hv(x); if (x == 2) { return x; } } return 0;`,
	`x = 70000; x++; hv(x); return x;`,
	`x = 1.5; x++; hv(x); return x;`,
	`x = 100000; x--; x--; hv(x); return x;`,
	`x = 65535; y = x; y++; hv(x, y); return x;`,
	`function c(n) { hv(n); return n * 2; } function b(n) { local k; k = c(n + 1); hv(k); return k + 1; } function a(n) { return b(n) + b(n + 1); } r = a(A); hv(r); return r;`,
	`i = 0; t = 0; while (i < 4) { i++; switch (i) { case 1 { t = t + 10; } case 2, 3 { t = t + h(i); } default { t = t - 1; } } } return t;`,
	`if (!seen) { seen = [3, 1, 2]; cnt = 0; } cnt++; foreach v in seen { hv(v, cnt); } return cnt;`,
	`if (!tab) { tab = {"a": 1, "b": 2, "c": 3}; } s = 0; foreach k, v in tab { s = s + v; hv(k); } return s;`,
	`s = ""; foreach ch in "héllo" { s = s + ch; hv(s); } return len(s);`,
	`function g(p) { p = p + 1; q = p * 2; return q; } t = 0; foreach x in Items { t += g(x); } h(t); return t;`,
	`t = 70000; t += 70000; t -= 1; hv(t); return t;`,
	`function r(n) { if (n < 1) { return 0; } return n + r(n - 1); } v = r(4); hv(v); return v;`,
	`function w(n) { local i; i = 0; while (i < n) { i++; foreach y in [1, 2] { if (y == 2 && i == 2) { return i * 10; } h(i, y); } } return 0; } o = w(3); return o;`,
	`function safe(d) { return 100 / d; } q = safe(B + 1); hv(q); q = safe(B); hv(q); return q;`,
	`function outer() { foreach x in 1..3 { u = inner(x); } return 1; } function inner(z) { hv(z); if (z == 2) { z = z / (A - A); } return z; } return outer();`,
	`k = 123456; function bump() { k++; return k; } a = bump(); b = bump(); hv(a, b); return b - a;`,
	`function pick(v) { return v > 1 ? "big" : "small"; } out = []; foreach x in [1, 2, 3] { hv(pick(x)); } return len(out);`,
	`m = 0; foreach i, x in 5..8 { m = m + i * x; } foreach i, x in "ab" { m = m + i; } h(m); return m;`,
	// the index of a foreach kept in a variable that outlives the run, over values that outlive it too
	`if (A > 1) { foreach i, ch in "abcdef" { pos = i; if (i == B) { return pos; } } } foreach j, ch in "abcdef" { x = ch; } h(pos); return pos;`,
	`if (!arr) { arr = [10, 20, 30, 40]; } if (A > 1) { foreach i, v in arr { at = i; if (v > 15 + B) { return at; } } } n = 0; foreach i, v in arr { n = n + v; } h(at); return at;`,
	`if (A > 0) { foreach k, v in {"a": 1, "b": 2, "c": 3} { key = k; val = v; if (v > B) { return key; } } } foreach k, v in {"a": 1, "b": 2, "c": 3} { x = v; } h(key); h(val); return key;`,
	`function twice(f) { return f * 2; } acc = 3.25; acc = acc + twice(acc); hv(acc); big = 99999; big++; return big;`,
	`if (S ~= /^h/) { hits++; } else { if (!hits) { hits = 0; } } h(hits); return hits;`,
	`function depth3(n) { foreach a in 1..2 { foreach b in 1..2 { hv(a, b, n); if (a == 2 && b == 1) { return a + b + n; } } } return 0; } function depth2(n) { return depth3(n + 1); } function depth1(n) { return depth2(n + 1); } z = depth1(C); return z;`,
}


type c07 struct {
	natural  map[int]int
	longRuns int // length of the long variant of a long history
}

func newC07() Prop { return &c07{natural: map[int]int{}, longRuns: 400} }

// SetTier: the long histories of the thorough tier are longer.
func (p *c07) SetTier(t string) {
	if t == "thorough" {
		p.longRuns = 2500
	}
}

func init() { propFactories["C07"] = newC07 }

func (p *c07) ID() string { return "C07" }

func init() {
	c07Corpus = append(c07Corpus,
		// names that are a parameter / loop variable in one place and a global in another
		`function share(part, limit) { return part / limit; } if (!limit) { limit = 100; } r = share(10, B); t = 0; foreach x in Items { if (x < limit) { t = t + x; } } hv(t, limit); return t;`,
		`function scan(last) { foreach last in [7, 8, 9] { if (last == 8) { return last; } } return 0; } q = scan(1); last = q + A; hv(last); return last;`,
		`foreach total in 1..3 { hv(total); if (total == A) { return total; } } total = 50; hv(total); return total;`,
		`function f(n) { local acc; acc = 10 / n; return acc; } acc = 5; n = 2; r = f(B); hv(acc, n, r); return acc + n;`,
		// recursion close to the engine's call-depth limit (A is 0..3): a
		// counter that is not put back on some exit shows up in the next run
		`function deep(n) { if (n < 1) { hv(n); return 0; } return 1 + deep(n - 1); } d = deep(300 * A + 90); return d;`,
		`function down(n) { if (n < 1) { return 10 / B; } return down(n - 1); } function top() { foreach q in [1] { return down(280 * A + 60); } return 0; } return top();`,
		// a host map nested close to the engine's nesting limit
		`return len(string(M)) + len(S);`,
		`hv("$S", $S, "$A", "S"); x = $A + A; if ($S == S) { hv("$x", x); } return "$S";`,
		`function outer(v) { foreach a in [1, 2] { foreach b in [3, 4] { if (b == 4 && a == v) { return [a, b]; } } } return 0; } r = outer(A); foreach c in "xyz" { if (c == "y") { return c; } } return r;`,
		`n = 0; foreach ch in "abcdef" { n++; if (ch == "c") { return n; } } return -1;`,
	)
}

// two anonymous struct types (same package path, same - empty - name) with
// the same field names in a different order, and two function-local types
// that are both called Event
func c07Anon1() interface{} {
	return struct {
		A, B, C int
		S       string
		Items   []int
	}{A: 3, B: 1, C: 2, S: "hall", Items: []int{1, 2}}
}
func c07Anon2() interface{} {
	return struct {
		S     string
		Items []int
		C, B  int
		A     int
	}{S: "ab", Items: []int{3}, C: 5, B: 2, A: 1}
}
func c07Local1() interface{} {
	type Event struct {
		A, B int
		S    string
	}
	return Event{A: 2, B: 1, S: "héllo"}
}
func c07Local2() interface{} {
	type Event struct {
		S    string
		B, A int
		C    int
	}
	return &Event{S: "hall", B: 0, A: 4, C: 1}
}

var c07Objs = []interface{}{
	nil,
	Obj{A: 2, B: 1, C: 5, S: "hall", Items: []int{3, 1, 2}},
	&Obj{A: 1, B: 0, C: 0, S: "", Items: []int{1}},
	map[string]interface{}{"A": 3, "B": 2, "C": -1, "S": "héllo", "Items": []interface{}{1, 2, 3, 4, 5}},
	c07Anon1(), c07Anon2(), c07Local1(), c07Local2(),
	map[string]interface{}{"A": 3, "B": 1, "S": "x", "M": deepMap(990)},
	map[string]interface{}{"A": 2, "B": 0, "S": "yy", "M": deepMap(1005)},
	map[string]interface{}{"A": 1, "B": 1, "S": "z", "M": map[string]string{"unconvertible": "value kind"}},
}

// deepMap returns a map nested n levels deep.
func deepMap(n int) map[string]interface{} {
	top := map[string]interface{}{"leaf": 0}
	for i := 0; i < n; i++ {
		top = map[string]interface{}{"k": top}
	}
	return top
}

// (placeholder to keep the literal above terminated)
var _ = []interface{}{}

// Draw layout, mode 1 (crash-point enumeration):
//   [1, script, object, opt, fault kind, k]   fault kind 0 = cancel at tick k, 1 = host panic at call k+1
func (p *c07) Enumerate(tier string) [][]int32 {
	var out [][]int32
	for si, text := range c07Corpus {
		for oi, obj := range c07Objs {
			// the objects with very deep maps only meet the script that reads them
			if oi >= len(c07Objs)-3 && !strings.Contains(text, "string(M)") {
				continue
			}
			for opt := 0; opt < 2; opt++ {
				if tier == "quick" && opt == 1 && oi%2 == 1 {
					continue
				}
				// natural length of a clean run
				ctx := verifsim.NewSimContext(-1)
				ctx.HardCap = c07HardCap
				h := newHost(ctx)
				e := evalfilter.New(text)
				h.install(e)
				e.SetContext(ctx)
				if err, esc := doPrepare(e, opt == 0); err != nil || esc != nil {
					continue
				}
				under(ctx, func() { doExecute(e, obj) })
				n := int(ctx.Ticks)
				// every tick of ordinary runs; long runs (deep recursion) are
				// sampled beyond the first 400 ticks
				for k := 0; k <= n+1; k++ {
					if n > 1500 && k%(n/40+1) != 0 {
						continue
					}
					if k > 400 && n > 800 && k%(n/100+1) != 0 {
						continue
					}
					out = append(out, []int32{1, int32(si), int32(oi), int32(opt), 0, int32(k)})
				}
				for k := 0; k < h.Calls; k++ {
					out = append(out, []int32{1, int32(si), int32(oi), int32(opt), 1, int32(k)})
				}
			}
		}
	}
	// long histories: 60 runs with a fault every few runs; what the evaluator
	// holds on to must not grow with the number of runs
	for si := range c07Corpus {
		for oi := 1; oi < len(c07Objs); oi += 2 {
			out = append(out, []int32{2, int32(si), int32(oi), int32(si % 2)})
		}
		// … and one of several hundred runs per script
		out = append(out, []int32{2, int32(si), int32(1 + si%3), int32((si + 1) % 2), 1})
	}
	return out
}

func (p *c07) RandomRuns(tier string) int {
	if tier == "thorough" {
		return 2500000
	}
	return 50000
}

// c07Run is the plan of one run of a history.
type c07Run struct {
	Obj      interface{}
	ObjDesc  string
	Maybe    []bool
	Fault    string // "", cancel, host-panic, host-nil, cancel-in-host
	K        int
	UseRun   bool
	SetVar   string
	SetVal   object.Object
	SetDesc  string
}

func classifyErr(r Result) string {
	switch {
	case !r.Failed:
		return "none"
	case strings.Contains(r.Err, "timeout"):
		return "cancel"
	case strings.Contains(r.Err, "boom from host"):
		return "host-panic"
	case strings.Contains(r.Err, "nil pointer") || strings.Contains(r.Err, "invalid memory"):
		return "host-nil"
	case strings.Contains(r.Err, "mismatch in argument"):
		return "argcount"
	case strings.Contains(r.Err, "error during Run"):
		return "panic"
	default:
		return "error"
	}
}

type evalSide struct {
	e   *evalfilter.Eval
	h   *Host
	ctx *verifsim.SimContext
	// scope depth at the instant an injected fault struck (-1 unknown)
	faultDepth int
}

func newSide(text string, opt bool) (*evalSide, error, *Escaped) {
	ctx := verifsim.NewSimContext(-1)
	ctx.HardCap = c07HardCap
	h := newHost(ctx)
	e := evalfilter.New(text)
	h.install(e)
	e.SetContext(ctx)
	err, esc := doPrepare(e, opt)
	s := &evalSide{e: e, h: h, ctx: ctx, faultDepth: -1}
	ctx.OnFire = func() { s.faultDepth = e.VerifScopes() }
	h.OnFault = func() { s.faultDepth = e.VerifScopes() }
	return s, err, esc
}

func (s *evalSide) arm(r *c07Run) {
	k := int64(-1)
	if r.Fault == "cancel" {
		k = int64(r.K)
	}
	s.ctx.Rearm(k)
	s.ctx.HardCap = c07HardCap
	s.faultDepth = -1
	h := s.h
	h.Trace = h.Trace[:0]
	h.Maybe, h.nMaybe = r.Maybe, 0
	h.BoomAt, h.nBoom, h.NilAt, h.nNil, h.Calls, h.CancelAtCall, h.PanicAtCall = 0, 0, 0, 0, 0, 0, 0
	h.CallsAfterCancel, h.Runaway, h.CancelledInHost = 0, false, false
	switch r.Fault {
	case "host-panic":
		h.BoomAt = r.K + 1
	case "host-nil":
		h.NilAt = r.K + 1
	case "cancel-in-host":
		h.CancelAtCall = r.K + 1
	case "host-panic-any":
		h.PanicAtCall = r.K + 1
	}
}

func (s *evalSide) exec(r *c07Run) (res Result) {
	under(s.ctx, func() {
		if r.UseRun {
			res = doRun(s.e, r.Obj)
		} else {
			res = doExecute(s.e, r.Obj)
		}
	})
	return
}

func (p *c07) Run(c *verifsim.Chooser, st *Stats, render bool) *Outcome {
	o := &Outcome{}
	mode := c.Intn(32) // 0 random history (29 in 32), 1 corpus crash point, 2 long history
	if mode > 2 {
		mode = 0
	}
	var text string
	var globals, scoped []string
	var runs []*c07Run
	opt := true
	usePool := false
	if mode == 1 {
		si := c.Intn(len(c07Corpus))
		oi := c.Intn(len(c07Objs))
		opt = c.Intn(2) == 0
		fk := c.Intn(2)
		k := c.Intn(c07HardCap)
		text = c07Corpus[si]
		globals, scoped = analyseNames(text)
		f := "cancel"
		if fk == 1 {
			f = "host-panic-any"
		}
		obj := c07Objs[oi]
		runs = []*c07Run{
			{Obj: obj, ObjDesc: fmt.Sprintf("%+v", obj), Fault: f, K: k},
			{Obj: obj, ObjDesc: fmt.Sprintf("%+v", obj)},
			{Obj: c07Objs[(oi+1)%len(c07Objs)], ObjDesc: fmt.Sprintf("%+v", c07Objs[(oi+1)%len(c07Objs)]), UseRun: true},
			{Obj: obj, ObjDesc: fmt.Sprintf("%+v", obj)},
		}
		setDesc(fmt.Sprintf("corpus[%d]", si))
	} else if mode == 2 {
		si := c.Intn(len(c07Corpus))
		oi := c.Intn(len(c07Objs))
		opt = c.Intn(2) == 0
		text = c07Corpus[si]
		globals, scoped = analyseNames(text)
		// (one history in six is several hundred runs long: limits that are
		// reached only after a hundred leaks, caches with a capacity)
		hlen := 60
		if c.Intn(6) == 1 {
			hlen = p.longRuns
		}
		for i := 0; i < hlen; i++ {
			obj := c07Objs[(oi+i%2)%len(c07Objs)]
			r := &c07Run{Obj: obj, ObjDesc: fmt.Sprintf("%+v", obj), UseRun: i%9 == 4}
			switch {
			case i%5 == 3:
				r.Fault, r.K = "cancel", 3+(i*7)%40
			case i%7 == 5:
				r.Fault, r.K = "host-panic-any", i%3
			case i%11 == 8:
				r.Fault, r.K = "cancel-in-host", i%2
			}
			if i >= hlen-3 {
				r.Fault = ""
			}
			runs = append(runs, r)
		}
		setDesc(fmt.Sprintf("long history corpus[%d]", si))
	} else {
		sc := GenScript(c, GenCfg{Funcs: true, Faults: true, Hashes: true})
		text, globals, scoped = sc.Text, sc.Globals, sc.Scoped
		if c.Intn(8) == 1 {
			// a script from some other property's corpus
			pool := scriptPool()
			text = pool[c.Intn(len(pool))]
			globals, scoped = analyseNames(text)
			usePool = true
		}
		opt = c.Intn(2) == 0
		setDesc("random history")
	}
	o.Digest.Str(text)

	L, err, esc := newSide(text, opt)
	if err != nil || esc != nil {
		st.probe("prepare-failed")
		return o
	}

	initKind := 0
	nruns := len(runs)
	if mode == 0 {
		initKind = c.Intn(3)
		nruns = 2 + c.Intn(9)
	}
	var fp0 int64
	fpSet := false
	shared := &Obj{}
	reusePtr := mode == 0 && c.Intn(4) == 1
	switch initKind {
	case 0:
		L.e.SetVariable("g0", &object.Integer{Value: 0})
		L.e.SetVariable("g1", &object.Integer{Value: 1})
	case 2:
		L.e.SetVariable("g0", &object.Integer{Value: 5})
		L.e.SetVariable("g1", &object.Integer{Value: 70000})
		L.e.SetVariable("g2", &object.Array{Elements: []object.Object{&object.Integer{Value: 1}, &object.Integer{Value: 2}, &object.Integer{Value: 3}}})
		L.e.SetVariable("g3", &object.String{Value: "s"})
	}

	// a second long-lived evaluator with another script, used in between (two
	// filters served by one process): nothing it does may reach L
	var M *evalSide
	if mode == 0 && c.Intn(4) == 1 {
		mt := GenScript(c, GenCfg{Funcs: true, Faults: true, Hashes: true}).Text
		if c.Intn(3) == 1 {
			mt = text // the same text, separately prepared
		}
		if m, err, esc := newSide(mt, c.Bool()); err == nil && esc == nil {
			M = m
			st.probe("second-evaluator-interleaved")
		}
	}
	all := append(append([]string{}, globals...), scoped...)
	lastFault, lastWhere := "none", "main"
	nfaults := 0
	prevLen := 64
	var hist []map[string]interface{}

	for i := 0; i < nruns; i++ {
		stillAlive()
		var r *c07Run
		if mode != 0 {
			r = runs[i]
		} else {
			r = &c07Run{}
			r.Obj, r.ObjDesc = genObject(c)
			if usePool || c.Intn(6) == 1 {
				r.Obj, r.ObjDesc = objectPool(c)
			}
			if reusePtr {
				// the host decodes every record into the same variable and
				// passes its address: same pointer, new contents
				*shared = Obj{A: c.Intn(4), B: c.Intn(3), C: c.Intn(3) - 1, S: []string{"ab", "hall", ""}[c.Intn(3)], Items: []int{1, 2, 3}[:c.Intn(4)]}
				r.Obj, r.ObjDesc = shared, fmt.Sprintf("(same pointer) %+v", *shared)
			}
			bits := c.Intn(16)
			r.Maybe = []bool{bits&1 != 0, bits&2 != 0, bits&4 != 0, bits&8 != 0}
			if i < nruns-1 {
				switch c.Intn(6) {
				case 1:
					r.Fault, r.K = "cancel", c.Intn(2*prevLen+8)
				case 2:
					r.Fault, r.K = "host-panic", c.Intn(3)
				case 3:
					r.Fault, r.K = "host-nil", c.Intn(2)
				case 4:
					r.Fault, r.K = "cancel-in-host", c.Intn(6)
				case 5:
					r.Fault, r.K = "host-panic-any", c.Intn(8)
				}
			} else {
				// the last run is as benign as the script allows
				r.Maybe = []bool{false}
			}
			r.UseRun = c.Intn(4) == 1
			if c.Intn(5) == 1 {
				switch c.Intn(3) {
				case 0:
					v := int64(c.Intn(5))
					r.SetVar, r.SetVal, r.SetDesc = "g0", &object.Integer{Value: v}, fmt.Sprint(v)
				case 1:
					r.SetVar, r.SetVal, r.SetDesc = "g2", &object.Array{Elements: []object.Object{&object.Integer{Value: 9}, &object.Integer{Value: 8}}}, "[9, 8]"
				default:
					r.SetVar, r.SetVal, r.SetDesc = "g1", &object.Integer{Value: 65536}, "65536"
				}
			}
		}
		if r.SetVar != "" {
			L.e.SetVariable(r.SetVar, r.SetVal)
		}
		if M != nil && c.Bool() {
			mr := &c07Run{Maybe: []bool{c.Bool(), c.Bool()}}
			mr.Obj, mr.ObjDesc = genObject(c)
			switch c.Intn(4) {
			case 1:
				mr.Fault, mr.K = "cancel", c.Intn(60)
			case 2:
				mr.Fault, mr.K = "host-panic-any", c.Intn(4)
			}
			M.arm(mr)
			M.exec(mr)
		}
		if mode == 0 && i > 0 && c.Intn(8) == 1 {
			// the host's user edits the filter: the new text goes into the
			// exported Script field of the much-used evaluator, which is
			// prepared again; from here on "fresh" means a new evaluator for
			// the new text
			nt, how := editedScript(c, text)
			L.e.Script = nt
			err, esc := doPrepare(L.e, opt)
			if render {
				hist = append(hist, map[string]interface{}{"edit": how, "new_script": nt, "prepare": fmt.Sprint(err, esc)})
			}
			if esc != nil {
				st.probe("edit-did-not-prepare")
				break
			}
			if err != nil {
				// "if this call fails the evaluator keeps the program it had"
				// (Prepare's own words): the host puts the old text back into
				// the field and goes on using the evaluator, which must still
				// behave like a new one for the old text
				if _, ferr, fesc := newSide(nt, opt); ferr == nil && fesc == nil {
					o.violate("C07/diverged", "after=script-edit@main obs=prepare", "a text (%s) that a new evaluator prepares is rejected by the much-used one: %v", how, err)
					break
				}
				L.e.Script = text
				st.fault("script-edit-rejected@main")
				lastFault, lastWhere = "script-edit-rejected", "main"
				nt = text
			} else {
				st.fault("script-edited@main")
			}
			text = nt
			globals, scoped = analyseNames(text)
			globals = append(globals, "g0", "g1", "g2", "g3")
			all = append(append([]string{}, globals...), scoped...)
			lastFault, lastWhere = "script-edit", "main"
		}
		snap := takeSnapshot(L.e, globals)
		F, ferr, fesc := newSide(text, opt)
		if ferr != nil || fesc != nil {
			o.violate("C07/diverged", "prepare", "a second evaluator for the same script failed to prepare: %v %v", ferr, fesc)
			break
		}
		snap.giveTo(F.e)
		L.arm(r)
		F.arm(r)
		rl := L.exec(r)
		rf := F.exec(r)
		o.Ticks += L.ctx.Ticks + F.ctx.Ticks
		prevLen = int(F.ctx.Ticks)
		kind := classifyErr(rf)
		where := "unknown"
		if F.faultDepth == 0 {
			where = "main"
		} else if F.faultDepth > 0 {
			where = "scoped"
		}
		if rf.Failed {
			nfaults++
			o.Nontrivial = true
			st.fault(kind + "@" + where)
			if F.faultDepth >= 2 {
				st.probe("fault-landed-at-scope-depth>=2")
			}
			if F.h.CancelledInHost {
				st.probe("cancelled-inside-host-call")
			}
		} else if F.e.VerifScopes() > 0 {
			st.probe("successful-run-left-scope-open(early return out of foreach)")
		}
		o.Digest.Str(rf.String())
		o.Digest.U64(uint64(F.ctx.Ticks))
		o.Digest.Str(joinTrace(F.h.Trace))
		if render {
			hist = append(hist, map[string]interface{}{
				"run": i, "object": r.ObjDesc, "fault": r.Fault, "k": r.K, "front_end": map[bool]string{true: "Run", false: "Execute"}[r.UseRun],
				"set_variable_before": strings.TrimSpace(r.SetVar + " " + r.SetDesc), "variables_before": snap.String(),
				"reused": rl.String(), "fresh": rf.String(), "reused_trace": joinTrace(L.h.Trace), "fresh_trace": joinTrace(F.h.Trace),
				"reused_ticks": L.ctx.Ticks, "fresh_ticks": F.ctx.Ticks,
			})
		}

		obs, detail := "", ""
		lv, fv := showVars(L.e, all), showVars(F.e, all)
		switch {
		case rl.Escaped != nil || rf.Escaped != nil:
			if (rl.Escaped == nil) != (rf.Escaped == nil) {
				obs, detail = "panic", fmt.Sprintf("reused: %v fresh: %v", rl.String(), rf.String())
			}
		case rl.Failed != rf.Failed:
			obs, detail = "error", fmt.Sprintf("reused evaluator: %s; fresh evaluator: %s", rl.String(), rf.String())
		case rl.Failed && rl.Err != rf.Err:
			obs, detail = "error", fmt.Sprintf("reused evaluator: %s; fresh evaluator: %s", rl.Err, rf.Err)
		case !rl.Failed && rl.Out != rf.Out:
			obs, detail = "result", fmt.Sprintf("reused evaluator returned %s; fresh evaluator returned %s", rl.Out, rf.Out)
		case joinTrace(L.h.Trace) != joinTrace(F.h.Trace):
			obs, detail = "trace", fmt.Sprintf("host calls differ: reused [%s] fresh [%s]", joinTrace(L.h.Trace), joinTrace(F.h.Trace))
		}
		if obs == "" {
			for j := range all {
				if lv[j] != fv[j] {
					if j < len(globals) {
						obs = "global"
					} else {
						obs = "scoped-name-visible"
					}
					detail = fmt.Sprintf("after the run variable %s is %s on the reused evaluator and %s on the fresh one", all[j], lv[j], fv[j])
					break
				}
			}
		}
		if obs == "" && L.ctx.Ticks > F.ctx.Ticks+c07TickSlack {
			obs, detail = "ticks", fmt.Sprintf("the reused evaluator needed %d ticks, the fresh one %d", L.ctx.Ticks, F.ctx.Ticks)
		}
		if obs == "" && L.ctx.Work > F.ctx.Work+c07WorkSlack {
			// the work clock sees what one tick hides: the cost of built-ins,
			// conversions and look-ups inside an instruction
			obs, detail = "work", fmt.Sprintf("the reused evaluator needed %d work units (loop iterations and calls inside the value and built-in code), the fresh one %d", L.ctx.Work, F.ctx.Work)
		}
		st.max("work_units_reused_minus_fresh", L.ctx.Work-F.ctx.Work)
		if obs == "" && L.e.VerifScopes() != F.e.VerifScopes() && L.e.VerifScopes() >= 0 {
			obs, detail = "scopes", fmt.Sprintf("open scopes after the run: reused %d, fresh %d", L.e.VerifScopes(), F.e.VerifScopes())
		}
		if obs == "" && L.e.VerifStack() != F.e.VerifStack() && L.e.VerifStack() >= 0 {
			obs, detail = "stack", fmt.Sprintf("value-stack residue after the run: reused %d, fresh %d", L.e.VerifStack(), F.e.VerifStack())
		}
		if obs == "" {
			// the prepared program as Dump prints it: the reused evaluator
			// against the fresh one after the same run (not against the text
			// right after Prepare: an engine may legitimately finish its
			// preparation lazily during the first run)
			d, _, _ := doDump(L.e)
			d = normDump(d)
			df, _, _ := doDump(F.e)
			df = normDump(df)
			if d != df {
				m0, c0, f0 := dumpSections(df)
				m1, c1, f1 := dumpSections(d)
				switch {
				case c0 != c1:
					obs = "dump:constants"
				case m0 != m1:
					obs = "dump:main"
				case f0 != f1:
					obs = "dump:functions"
				default:
					obs = "dump"
				}
				detail = "the prepared program, as Dump() prints it, differs between the reused evaluator and a fresh one after the same run (fresh -> reused):\n" + firstDiff(df, d)
			}
		}
		if obs == "" && mode == 2 && (i == 19 || i == nruns-1) {
			// what the reused evaluator holds on to, relative to the fresh
			// one, once it has seen every object of the history several times
			// (a cache per object type is legitimate; growth per run is not)
			d := footprint(L.e) - footprint(F.e)
			if !fpSet {
				fp0, fpSet = d, true
			} else if d-fp0 > c07FootprintSlack {
				obs, detail = "footprint", fmt.Sprintf("between run 20 and run %d of a history that keeps cycling through the same two objects the reused evaluator came to hold %d more slice/map entries (relative to a fresh one)", i+1, d-fp0)
			}
			st.max("footprint_growth_run20_to_run60", d-fp0)
		}
		if obs != "" {
			if rf.Failed && (obs == "scopes" || obs == "stack" || strings.HasPrefix(obs, "dump") || obs == "scoped-name-visible") {
				// a post-run state invariant broken by this very run
				lastFault, lastWhere = kind, where
			}
			sig := fmt.Sprintf("after=%s@%s obs=%s", lastFault, lastWhere, obs)
			o.violate("C07/diverged", sig, "run %d of the history: %s", i, detail)
			break
		}
		if rf.Failed {
			lastFault, lastWhere = kind, where
		} else if F.e.VerifScopes() > 0 {
			lastFault, lastWhere = "early-return", "scoped"
		}
		// a history whose variables grow without bound (a script that doubles
		// a string it keeps) ends here: the next runs would only measure the
		// host's memory
		grown := false
		for _, v := range fv {
			if len(v) > 1<<16 {
				grown = true
			}
		}
		if grown {
			st.probe("history-ended:variable-larger-than-64KB")
			break
		}
	}
	if nfaults >= 3 {
		st.probe("history-with>=3-faults")
	}
	if render {
		o.Sample = map[string]interface{}{"script": text, "optimizer": opt, "initial_variables": []string{"g0=0 g1=1", "none", "g0=5 g1=70000 g2=[1,2,3] g3=\"s\""}[initKind], "history": hist}
	}
	return o
}

func firstDiff(a, b string) string {
	la, lb := strings.Split(a, "\n"), strings.Split(b, "\n")
	for i := 0; i < len(la) || i < len(lb); i++ {
		x, y := "<end>", "<end>"
		if i < len(la) {
			x = la[i]
		}
		if i < len(lb) {
			y = lb[i]
		}
		if x != y {
			return fmt.Sprintf("line %d: %q became %q", i+1, x, y)
		}
	}
	return "(same lines)"
}
