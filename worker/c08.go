package main

import (
	"encoding/json"
	"errors"
	"fmt"
	"os"
	"regexp"
	"runtime/debug"
	"strings"
	"time"

	evalfilter "github.com/skx/evalfilter/v2"
	"github.com/skx/evalfilter/v2/object"
	"github.com/skx/evalfilter/v2/verifsim"
)

// C08 — bad scripts and odd objects produce errors, never a crash of the
// host (DESIGN 3/C08).  Every API call is wrapped: a panic that reaches the
// wrapper is a violation; death of the worker process is seen by the
// coordinator.  The worker lowers the maximum goroutine stack to 64 MB (a
// legal host setting) so that unbounded recursion shows up within a second.

const c08HardCap = 20000

type c08 struct {
	objs    []oddObj
	scripts []string
	hostTab []string
}

type oddObj struct {
	name string
	v    interface{}
}

// foreign is an object.Object implementation the engine does not know.
type foreign struct{ n int }

func (f *foreign) Inspect() string          { return fmt.Sprintf("<foreign %d>", f.n) }
func (f *foreign) Type() object.Type        { return "FOREIGN" }
func (f *foreign) True() bool               { return f.n > 0 }
func (f *foreign) ToInterface() interface{} { return f.n }

func oddObjects() []oddObj {
	one := 1
	var nilPtr *Obj
	var nilMap map[string]interface{}
	tm := time.Unix(1700000000, 0)
	return []oddObj{
		{"nil", nil},
		{"struct{F uint}", struct{ F uint }{7}},
		{"struct{F uint8}", struct{ F uint8 }{7}},
		{"struct{F uint64}", struct{ F uint64 }{1 << 63}},
		{"struct{F int8}", struct{ F int8 }{-7}},
		{"struct{F int16}", struct{ F int16 }{7}},
		{"struct{F int32}", struct{ F int32 }{7}},
		{"struct{F uintptr}", struct{ F uintptr }{7}},
		{"struct{F complex128}", struct{ F complex128 }{complex(1, 2)}},
		{"struct{F *int}", struct{ F *int }{&one}},
		{"struct{F *int nil}", struct{ F *int }{nil}},
		{"struct{F struct}", struct{ F struct{ X int } }{}},
		{"struct{F [2]int}", struct{ F [2]int }{}},
		{"struct{F chan}", struct{ F chan int }{make(chan int)}},
		{"struct{F func}", struct{ F func() }{func() {}}},
		{"struct{F interface nil}", struct{ F interface{} }{nil}},
		{"struct{F interface uint}", struct{ F interface{} }{uint(3)}},
		{"struct{F error}", struct{ F error }{errors.New("e")}},
		{"struct{F map[int]string}", struct{ F map[int]string }{map[int]string{1: "a", 2: "b"}}},
		{"struct{F map[string]int}", struct{ F map[string]int }{map[string]int{"a": 1}}},
		{"struct{F map[bool]interface}", struct{ F map[bool]interface{} }{map[bool]interface{}{true: 1}}},
		{"struct{F []struct}", struct{ F []struct{ X int } }{[]struct{ X int }{{1}, {2}}}},
		{"struct{F []map}", struct{ F []map[string]interface{} }{[]map[string]interface{}{{"a": 1}}}},
		{"struct{F []interface nil}", struct{ F []interface{} }{[]interface{}{nil, 1, nil}}},
		{"struct{F []uint}", struct{ F []uint }{[]uint{1, 2}}},
		{"struct{F [][]int}", struct{ F [][]int }{[][]int{{1}, {2, 3}}}},
		{"struct{F []byte}", struct{ F []byte }{[]byte("ab")}},
		{"struct{F time.Time}", struct{ F time.Time }{tm}},
		{"struct{F *time.Time}", struct{ F *time.Time }{&tm}},
		{"struct{f int unexported}", struct{ f int }{3}},
		{"struct{F float32}", struct{ F float32 }{1.5}},
		{"struct{F string; G uint}", struct {
			F string
			G uint
		}{"s", 2}},
		{"*struct nil", nilPtr},
		{"**struct", func() interface{} { p := &Obj{A: 1}; return &p }()},
		{"map nil", nilMap},
		{"map[string]interface{F uint}", map[string]interface{}{"F": uint(3)}},
		{"map[string]interface{F nil}", map[string]interface{}{"F": nil}},
		{"map[string]interface{F chan}", map[string]interface{}{"F": make(chan int)}},
		{"map[string]interface{F nested odd}", map[string]interface{}{"F": map[string]interface{}{"x": uint8(1), "y": []interface{}{uint(1), nil, struct{}{}}}}},
		{"map[string]interface{F map[int]}", map[string]interface{}{"F": map[int]interface{}{1: 2}}},
		{"map[string]int", map[string]int{"F": 1}},
		{"map[int]string", map[int]string{1: "F"}},
		{"map[interface{}]interface{}", map[interface{}]interface{}{"F": 1, 2: 3}},
		{"int", 42},
		{"string", "F"},
		{"[]int", []int{1, 2}},
		{"func", func() {}},
		{"chan", make(chan int)},
		{"*int", &one},
		{"bool", true},
		{"[]interface{}", []interface{}{1, "a"}},
		{"struct{}", struct{}{}},
		{"error", errors.New("boom")},
		{"foreign object as host object", &foreign{1}},
		{"map containing itself", func() interface{} { m := map[string]interface{}{"F": 1}; m["G"] = m; return m }()},
		{"struct with a map field containing itself", func() interface{} {
			m := map[string]interface{}{"k": 1}
			m["self"] = map[string]interface{}{"again": m}
			return struct{ F map[string]interface{} }{m}
		}()},
		{"map containing itself twice", func() interface{} {
			m := map[string]interface{}{"F": 1}
			m["G"], m["H"] = m, m
			return m
		}()},
		{"forty maps, each holding the next one twice", func() interface{} {
			var cur interface{} = map[string]interface{}{"leaf": 1}
			for i := 0; i < 40; i++ {
				cur = map[string]interface{}{"a": cur, "b": cur}
			}
			return map[string]interface{}{"F": 1, "G": cur}
		}()},
		{"forty slices, each holding the next one twice", func() interface{} {
			var cur interface{} = []interface{}{1}
			for i := 0; i < 40; i++ {
				cur = []interface{}{cur, cur}
			}
			return map[string]interface{}{"F": 1, "G": cur}
		}()},
		{"map nested 150000 levels deep", func() interface{} {
			top := map[string]interface{}{}
			cur := top
			for i := 0; i < 150000; i++ {
				nx := map[string]interface{}{}
				cur["k"] = nx
				cur = nx
			}
			return map[string]interface{}{"F": top, "G": 1}
		}()},
		{"interface field pointing at itself", func() interface{} {
			type rec struct {
				F     interface{}
				Extra interface{}
			}
			r := &rec{}
			r.Extra = &r.Extra
			r.F = &r.Extra
			return r
		}()},
		{"pointer-to-pointer cycle", func() interface{} {
			type cyc struct {
				F *interface{}
				G **cyc
			}
			var i interface{}
			i = &i
			c := &cyc{F: &i}
			c.G = &c
			return c
		}()},
		{"map value pointing back at the map through an interface", func() interface{} {
			m := map[string]interface{}{"G": 1}
			var i interface{} = m
			m["F"] = &i
			return m
		}()},
		{"slice containing itself", func() interface{} {
			rows := []interface{}{1, nil, "x"}
			rows[1] = rows
			return map[string]interface{}{"F": rows, "G": 2}
		}()},
		{"slices nested 100000 deep", func() interface{} {
			var cur interface{} = []interface{}{1}
			for i := 0; i < 100000; i++ {
				cur = []interface{}{cur}
			}
			return struct{ F interface{} }{cur}
		}()},
		{"slice of maps of slices", struct{ F []interface{} }{[]interface{}{map[string]interface{}{"a": []interface{}{map[string]interface{}{"b": []interface{}{1, 2}}}}, []interface{}{[]interface{}{3}}}}},
		{"[]byte holding JSON text", []byte(`{"F": 1, "G": [1, 2]}`)},
		{"[]byte holding other text", []byte("F = 1")},
		{"json.RawMessage", json.RawMessage(`{"F": 2}`)},
		{"string holding JSON text", `{"F": 3}`},
		{"*[]byte", func() interface{} { b := []byte(`{"F": 1}`); return &b }()},
		{"*map", func() interface{} { m := map[string]interface{}{"F": 1}; return &m }()},
		{"time.Time", tm},
		{"[2]struct", [2]struct{ F int }{{1}, {2}}},
		{"self-referencing struct pointer", func() interface{} {
			type node struct {
				F    int
				Next *node
				Kids []*node
			}
			n := &node{F: 1}
			n.Next, n.Kids = n, []*node{n}
			return n
		}()},
		{"struct with embedded struct and unexported fields", func() interface{} {
			type inner struct {
				F int
				g string
			}
			type outer struct {
				inner
				G     []interface{}
				h     map[string]int
				Inner inner
			}
			return outer{inner: inner{F: 1, g: "x"}, G: []interface{}{inner{F: 2}, nil}, h: map[string]int{"a": 1}}
		}()},
	}
}

var c08FieldScripts = []string{
	`return F;`,
	`return F + 1;`,
	`x = F; return x;`,
	`return len(F);`,
	`foreach v in F { x = v; } return 1;`,
	`return F ? 1 : 2;`,
	`return string(F);`,
	`if (F) { return 1; } return 0;`,
	`return type(F);`,
	`return F == F;`,
	`x = [F, F]; return x;`,
	`x = {"k": F}; return x["k"];`,
	`return F[0];`,
	`return F.x;`,
	`switch (F) { case 1 { return 1; } default { return F; } }`,
	`F++; return F;`,
	`return sprintf("%v %s %d", F, F, F);`,
	`return keys(F);`,
	`return G;`,
	`return len(string(G));`,
	`x = sprintf("%v|%s", G, G); return len(x) > 0;`,
	`n = 0; foreach k, v in G { n++; x = string(v); } return n;`,
	`return len(keys(G)) + len(string(keys(G)));`,
	`return G == G;`,
	`function id(a) { return a; } return id(F);`,
	`return !F;`,
	`return -F;`,
	`return F in [F];`,
	`return F ~= /a/;`,
	`return sort([F, F]);`,
	`return min(F, 1);`,
	`return hour(F);`,
	`return 1;`,
}

// host-function fault table: %s is replaced by a call of the faulty host function hf()
var c08HostPositions = []string{
	`hf();`,
	`x = hf(); return x;`,
	`return hf();`,
	`return hf() + 1;`,
	`return h(hf());`,
	`if (hf()) { return 1; } return 2;`,
	`foreach v in hf() { x = v; } return 3;`,
	`return hf() ? 1 : 2;`,
	`x = [hf(), 1]; return x;`,
	`x = {"a": hf()}; return x;`,
	`x = {hf(): 1}; return x;`,
	`return [1, 2][hf()];`,
	`switch (hf()) { case 1 { return 1; } default { return 0; } }`,
	`switch (1) { case hf() { return 1; } default { return 0; } }`,
	`function w() { return hf(); } return w();`,
	`function w(a) { return a; } return w(hf());`,
	`x = 1; while (x < 3) { x++; hf(); } return x;`,
	`return len(hf());`,
	`return string(hf());`,
	`return hf() == hf();`,
	`return hf() && true;`,
	`return !hf();`,
	`return -hf();`,
	`return "a" ~= hf();`,
	`return 1..hf();`,
	`return sprintf("%v", hf());`,
}

var c08HostFaults = []string{"nil", "foreign", "void", "panic-string", "panic-error", "panic-int", "panic-runtime", "null"}

var c08Recursion = []string{
	`function f(n) { return f(n + 1); } return f(0);`,
	`function a(n) { return b(n + 1); } function b(n) { return a(n + 1); } return a(0);`,
	`function f(n) { foreach x in [1] { return f(n + 1); } return 0; } return f(0);`,
	`function f(n) { local q; q = f(n + 1); return q; } r = f(0); return r;`,
	`function f(n) { return n > 0 ? f(n + 1) : f(n + 2); } return f(1);`,
	`function f(n) { switch (n) { case 0 { return f(1); } default { return f(n + 1); } } } return f(0);`,
	`function f(n) { if (n < 300) { return f(n + 1); } return n; } return f(0);`,
	// runaway only for some objects: the benign run afterwards must work
	`function f(n) { if (B == 0) { return f(n + 1); } return n; } return f(0);`,
	`function g(n) { if (A > 5) { return g(n + 1); } return n; } function f(n) { return g(n) + 1; } x = f(0); return x;`,
	`function f(n) { if (maybe()) { return f(n + 1); } return 10 / n; } return f(1);`,
}

// constant expressions: every binary operator over edge-case literals (the
// optimizer folds constants while Prepare runs, outside any recover)
var c08ConstOps = []string{"+", "-", "*", "/", "%", "**", "<", "<=", ">", ">=", "==", "!=", "&&", "||", "~=", "!~", "in", ".."}
var c08ConstVals = []string{"0", "1", "-1", "7", "9223372036854775807", "-9223372036854775807", "0.0", "2.5", "-0.5", "1e308", `""`, `"s"`, "true", "false", "[]", "[1, 2]", "/a/", "65535", "65536"}
var c08ConstShapes = []string{"return %s %s %s;", "if (%s %s %s) { return 1; } return 2;", "function f() { return %s %s %s; } return f();", "x = %s %s %s; return x;"}

// built-in functions called with odd constant arguments (a Prepare-time
// evaluation of such calls would run them outside any recover)
// c08Builtins: the built-in functions the checks call.  The list below is
// what the pinned tree has; whatever else the library under test registers
// (found through a generated accessor) is appended, so that a built-in added
// by a change is exercised like the others.  now/time are left to the
// tables of C08 and C09 only (C19 exempts them).
var c08Builtins = func() []string {
	known := c08KnownBuiltins
	have := map[string]bool{"now": true, "time": true}
	for _, k := range known {
		have[k] = true
	}
	if names, ok := evalfilter.New("return 1;").VerifFunctionNames(); ok {
		for _, n := range names {
			if !have[n] {
				known = append(known, n)
				have[n] = true
			}
		}
	}
	return known
}()

var c08KnownBuiltins = []string{"between", "float", "getenv", "int", "join", "keys", "len", "lower", "match", "max", "min", "panic", "print", "printf", "replace", "reverse", "sort", "split", "sprintf", "string", "trim", "type", "upper", "hour", "minute", "seconds", "day", "month", "year", "weekday"}
var c08BuiltinArgs = []string{"", "1", `"s"`, `""`, "[]", `[1, "a", 2.5, [1]]`, `{"k": 1}`, "true", "/a(/", "-9223372036854775807", "99999999999999999", "1.5", `"%d %s %v %q %c %x %5.2f %*d %!"`, `"a", ""`, `"", ""`, `[1, 2], 3`, `1, 2, 3, 4`, `"%s"`, `"%d", "x"`, `[[], [1]], ","`, `"a,b", ",", 3`, "x", "1, x"}

// scripts that build a deeply nested value at run time and then print it
// (%d = number of loop iterations)
var c08RuntimeNest = []string{
	`a = [1]; i = 0; while (i < %d) { a = [a]; i++; } return len(string(a));`,
	`a = {"k": 1}; i = 0; while (i < %d) { a = {"k": a}; i++; } return len(string(a));`,
	`a = [1]; i = 0; while (i < %d) { a = [a, i]; i++; } return sprintf("%%v", a) == "";`,
	`a = [1]; i = 0; while (i < %d) { a = [a]; i++; } return a;`,
}

// lexer / parser edge cases: input that ends (or goes wrong) in the middle of
// a token.  Each is tried on its own and as the tail of a valid prefix.
var c08LexEdges = []string{
	"\"", "\"abc", "\"abc\\", "\"abc\\\r", "\"abc\\\r\n", "\"abc\\n", "\"\\", "\"\\\"", "\"a\nb", "'", "'abc", "`", "`abc",
	"/", "/abc", "/abc/", "/(/", "/(?i/", "/(?/", "/(?", "/(?:a|b/", "/(?i)/", "/[/", "/a/xyz", "/\\", "/a\\/", "x ~= /", "x ~= /(?", "x ~= /(?i",
	"1e", "1e+", "1.", "1..", "1...2", "0x", "0xZZ", "0b12", "1_000", "9999999999999999999999", "1.5.5", ".5", "-", "--", "- -", "+", "++", "x++ ++",
	"(", ")", "[", "]", "{", "}", "((", "[1,", "{1:", "{1:2,", "{,}", "[,]", "f(", "f(1,", "f(,)", "x[", "x[1", "x.", "x..", ".x", "x.y.",
	"if", "if (", "if (1", "if (1)", "if (1) {", "if (1) {} else", "if (1) {} else if", "while", "while (", "for", "foreach", "foreach x", "foreach x in", "foreach x,", "foreach x, y in", "foreach , in x {}",
	"function", "function f", "function f(", "function f(a", "function f(a,", "function f(a) {", "function (a) {}", "function f(1) {}", "function f(a a) {}", "local", "local x", "local 1;", "return", "return;", "return return",
	"switch", "switch (", "switch (1)", "switch (1) {", "switch (1) { case", "switch (1) { case 1", "switch (1) { case 1 {", "switch (1) { default", "switch (1) { default { } default { } }", "switch (1) { case 1, }", "switch (1) { 1 }",
	"1 ?", "1 ? 2", "1 ? 2 :", "1 ? 2 : 3 ? 4 : 5", "x = ", "x += ", "= 1", "1 = 2", "x == ", "&&", "1 &&", "|| 1", "!", "!!", "√", "√√", "1 in", "in 1", "1 ** ", "%", "1 % ",
	// complete programs whose LAST statement is each construct (no trailing return, with and without semicolon)
	"a = 3; a > 2 ? \"big\" : \"small\"", "a = 3; a > 2 ? \"big\" : \"small\";", "x = 1; if (x) { y = 2; }", "x = 1; if (x) { y = 2; } else { y = 3; }", "x = 0; while (x < 2) { x++; }",
	"foreach v in [1, 2] { x = v; }", "switch (1) { case 1 { x = 1; } }", "switch (2) { case 1 { x = 1; } default { x = 2; } }", "x = [1, 2][0]", "x = {\"a\": 1}", "len(\"x\")", "function f() { return 1; }",
	"function f() { return 1; } f()", "x = 1; x++", "1 + 2", "!true", "-1", "x = 1 ? 2 : 3", "true ? f : g", "x = 1; x > 0 ? x : -x", "function f(a) { return a ? 1 : 2; } f(1) ? 1 : 2",
	"\xef\xbb\xbfreturn 1;", "return 1;\r\n", "x = 1;\r\nreturn x;\r\n", "\xff\xfereturn 1;", "return 1;\x1a", "//", "// comment", "/* c", "#", "@", "$", "$x", "~", "^", "&", "|", "\\", "\x00", "\xff", "\xc3", "\xe2\x82", "\r", "\r\n", "\t", "é", "x\x00y", "return \"a\x00b\";",
}

// valid scripts that are unusual only in what they are made of: long and
// non-ASCII constants, long names, many constants - prepared, run and dumped
var c08Unusual = []string{
	`x = "Съешь ещё этих мягких французских булок"; return len(x);`,
	`x = "いろはにほへとちりぬるをわかよたれそつねならむうゐのおくやま"; return x == x;`,
	`x = "ΑΒΓΔΕΖΗΘΙΚΛΜΝΞΟΠΡΣΤΥΦΧΨΩ αβγδεζηθικλμνξοπρστυφχψω"; return x ~= /ω$/;`,
	`x = "😀😃😄😁😆😅😂🤣😊😇🙂🙃😉😌😍🥰😘😗😙😚"; return len(x);`,
	`x = "` + strings.Repeat("é", 58) + `"; y = "` + strings.Repeat("ü", 61) + `"; return x + y;`,
	`x = "` + strings.Repeat("a", 59) + `é"; return x;`,
	`x = "tab\there \"quoted\" and a newline\nand a second line that is rather long, longer than sixty characters"; return x;`,
	`return "%d %s %v %% 100% literally";`,
	`a_rather_long_variable_name_that_goes_on_and_on_and_on_for_more_than_sixty_characters = 1; return a_rather_long_variable_name_that_goes_on_and_on_and_on_for_more_than_sixty_characters;`,
	`function a_function_with_a_very_long_name_indeed_more_than_sixty_characters_long(x) { return x; } return a_function_with_a_very_long_name_indeed_more_than_sixty_characters_long(1);`,
	`x = /^(?:[a-z0-9!#$%&'*+=?^_{|}~-]+(?:\.[a-z0-9!#$%&'*+=?^_{|}~-]+)*)@(?:[a-z0-9](?:[a-z0-9-]*[a-z0-9])?\.)+[a-z0-9]$/i; return S ~= x;`,
	`x = [1.5, 2.25, 1234567.890123, 0.000001, 99999999999, -3]; return x;`,
	`x = {"ключ": "значение", "键": "值", "🔑": [1, "два", 3.0]}; return keys(x);`,
	`return 60 * 60 * 24 * 365 + 70000 - 1;`,
	`return [65534, 65535, 65536, 70000 * 2, 300 * 300, 3 - 10];`,
	"x = 1; // a comment with ünïcödé in it, and it is a long comment, longer than sixty characters surely\nreturn x;",
	`x = "line one
line two, inside one string literal that spans lines and contains ünïcödé"; return len(x);`,
}

// scripts that make one process see very many distinct things of one kind
var c08Bulk = []struct{ name, text string }{
	{"distinct regular expressions via match", "n = 0; foreach i in 1..2500 { if (match(S, \"^user-\" + string(i) + \"$\")) { n++; } } return n;"},
	{"distinct regular expressions via replace", "n = 0; foreach i in 1..2500 { n = n + len(replace(S, \"u\" + string(i), \"\")); } return n;"},
	{"distinct invalid regular expressions", "n = 0; foreach i in 1..1500 { if (match(S, \"(\" + string(i))) { n++; } } return n;"},
	{"distinct hash keys", "n = 0; foreach i in 1..3000 { x = {string(i): i, i: S}; n = n + len(keys(x)); } return n;"},
	{"distinct strings", "n = 0; foreach i in 1..3000 { s = sprintf(\"%d-%s\", i, S); n = n + len(s); } return n;"},
	{"distinct format strings", "n = 0; foreach i in 1..2000 { n = n + len(sprintf(\"%\" + string(i % 40 + 1) + \"d\", i)); } return n;"},
	{"many calls of a user function", "function f(x) { return x + 1; } n = 0; foreach i in 1..5000 { n = f(n); } return n;"},
	{"many scopes", "n = 0; foreach i in 1..1200 { foreach j in 1..2 { n = n + j; } } return n;"},
	{"many time zones", "n = 0; foreach i in 1..300 { n = n + hour(i * 3600) + len(weekday(i * 86400)); } return n;"},
	{"many split and join", "n = 0; foreach i in 1..2000 { n = n + len(split(string(i) + \",\" + S, \",\")); } return n;"},
}

// every character that may follow a backslash inside a string literal
var c08EscapeChars = func() []string {
	var out []string
	for b := 0x20; b < 0x7f; b++ {
		out = append(out, string(rune(b)))
	}
	return append(out, "\n", "\r", "\t", "\x00", "\xff", "é", "√", "\u2028")
}()

// the same malformed fragment two or three times inside one construct (an
// error path that is fine once may not be fine the second time)
var c08BadAtoms = []string{",", ")", "", ":", "]", "}", "=", "if", "1 +", "\"x", "/(", "function", "..", "!", "$"}
var c08Containers = []string{"return {%s:1,%s:2};", "x = { %s : 1, %s : 2, %s : 3 };", "return [%s, %s];", "return len(%s, %s);", "x = f(%s)(%s);", "switch (%s) { case %s { } case %s { } }",
	"if (%s) { } else { %s }", "foreach %s in %s { }", "function %s(%s) { }", "return %s ? %s : %s;", "x = %s; y = %s;", "local %s; local %s;", "return {1:%s, 2:%s};", "x[%s][%s] = 1;", "for (%s;%s;%s) { }", "return (%s)(%s);"}

var hostileDict = []string{"(", ")", "{", "}", "[", "]", ";", ",", ":", "?", "=", "==", "!=", "<", "<=", ">", ">=", "+", "-", "*", "/", "%", "**", "++", "--", "+=", "-=", "*=", "/=",
	"&&", "||", "!", "~=", "!~", "..", ".", "√", "in", "if", "else", "while", "for", "foreach", "function", "return", "local", "switch", "case", "default", "true", "false",
	"\"", "'", "/", "/a/", "/(/", "/[/i", "/(?i/", "/(?/", "/(?:a|b/", "\"abc\\", "\"abc\\\r", "\\\r", "\"unterminated", "0x", "1e999", "99999999999999999999999", "1.2.3", "0.", ".5", "$x", "_", "x", "f", "\\", "\x00", "\xff\xfe", "é", "𝒳", "`", "#", "//", "/*", "@", "~", "^", "&", "|",
	"function f(", "foreach x in", "case 1", "1 ? 2 :", "1 ? 2 : 3 ? 4 : 5", "{1:2,", "[1,2", "f(1,", "local x;", "return;", "switch (1) {", "default {", "else if", "in in"}

var reTok = regexp.MustCompile("\"[^\"]*\"|/[^/ ]+/[a-z]*|[A-Za-z_][A-Za-z_0-9]*|[0-9]+(?:\\.[0-9]+)?|\\+\\+|--|\\+=|-=|\\*=|/=|==|!=|<=|>=|&&|\\|\\||~=|!~|\\.\\.|\\*\\*|\\s+|.")

func newC08() Prop {
	debug.SetMaxStack(64 << 20)
	return &c08{objs: oddObjects()}
}

func init() { propFactories["C08"] = newC08 }

func (p *c08) ID() string { return "C08" }

// Draw layout: [mode, …]
//   0 generated script + history on odd/ordinary objects with faults
//   1 field-script x odd object table        [1, script, object, api, opt]
//   2 host-fault x position table            [2, position, fault, api, opt]
//   3 hostile text (mutated corpus)
//   4 deep nesting / pathological length
//   5 recursion                               [5, script, api, opt]
func (p *c08) Enumerate(tier string) [][]int32 {
	var out [][]int32
	for s := range c08FieldScripts {
		for o := range p.objs {
			for api := 0; api < 2; api++ {
				out = append(out, []int32{1, int32(s), int32(o), int32(api), int32((s + o + api) % 2)})
			}
		}
	}
	for pos := range c08HostPositions {
		for f := range c08HostFaults {
			for api := 0; api < 2; api++ {
				for opt := 0; opt < 2; opt++ {
					out = append(out, []int32{2, int32(pos), int32(f), int32(api), int32(opt)})
				}
			}
		}
	}
	for s := range c08Recursion {
		for api := 0; api < 2; api++ {
			for opt := 0; opt < 2; opt++ {
				out = append(out, []int32{5, int32(s), int32(api), int32(opt)})
			}
		}
	}
	for e := range c08LexEdges {
		for pre := 0; pre < 4; pre++ {
			out = append(out, []int32{14, int32(e), int32(pre)})
		}
	}
	for ci := range c08Containers {
		for a := range c08BadAtoms {
			out = append(out, []int32{17, int32(ci), int32(a), int32((ci + a) % 2)})
		}
	}
	for b := range c08Bulk {
		for opt := 0; opt < 2; opt++ {
			out = append(out, []int32{18, int32(b), int32(opt), int32((b + opt) % 2)})
		}
	}
	for u := range c08Unusual {
		for opt := 0; opt < 2; opt++ {
			out = append(out, []int32{19, int32(u), int32(opt)})
		}
	}
	// every small integer as a result, through both front ends (tables of
	// preallocated values have edges)
	for n := 0; n <= 1100; n++ {
		out = append(out, []int32{20, int32(n), int32(n % 3), int32(n % 2)})
	}
	for _, n := range []int32{32767, 32768, 65534, 65535, 65536, 70000} {
		out = append(out, []int32{20, n, 0, 1})
	}
	for e := range c08EscapeChars {
		for k := 0; k < 7; k++ {
			for term := 0; term < 2; term++ {
				out = append(out, []int32{16, int32(e), int32(k), int32(term), int32((e + k) % 4)})
			}
		}
	}
	for b := range c08Builtins {
		for a := range c08BuiltinArgs {
			out = append(out, []int32{15, int32(b), int32(a), int32((a + b) % 2), int32(b % 2)})
		}
	}
	for op := range c08ConstOps {
		for a := range c08ConstVals {
			for b := range c08ConstVals {
				// (with and without the optimizer: the last draw is "Intn(2) == 0")
				out = append(out, []int32{13, int32(op), int32(a), int32(b), int32((op + a + b) % len(c08ConstShapes)), 0})
				out = append(out, []int32{13, int32(op), int32(a), int32(b), int32((op + a + b + 1) % len(c08ConstShapes)), 1})
			}
		}
	}
	for s := range c08RuntimeNest {
		depths := []int32{100, 3000}
		if s == 0 || tier == "thorough" {
			depths = append(depths, 400000)
		}
		for _, d := range depths {
			out = append(out, []int32{12, int32(s), d})
		}
	}
	for kind := 0; kind < nestKinds; kind++ {
		for _, depth := range []int32{10, 100, 1000, 5000, 20000, 50000} {
			out = append(out, []int32{4, int32(kind), depth - 1, 1}) // (4th draw = 1: keep the depth as given)
		}
	}
	// chains are cheap per link: a few much longer ones
	for _, depth := range []int32{200000, 600000} {
		out = append(out, []int32{4, 19, depth - 1, 1})
	}
	return out
}

func (p *c08) RandomRuns(tier string) int {
	if tier == "thorough" {
		return 3000000
	}
	return 30000
}

type c08Eval struct {
	e       *evalfilter.Eval
	h       *Host
	ctx     *verifsim.SimContext
	hfFault string
}

func (p *c08) newEval(text string, hfFault string) *c08Eval {
	ctx := verifsim.NewSimContext(-1)
	ctx.HardCap = c08HardCap
	h := newHost(ctx)
	e := evalfilter.New(text)
	h.install(e)
	ev := &c08Eval{e: e, h: h, ctx: ctx, hfFault: hfFault}
	e.AddFunction("hf", func(args []object.Object) object.Object {
		h.enter("hf", args)
		switch ev.hfFault {
		case "nil":
			return nil
		case "foreign":
			return &foreign{2}
		case "void":
			return &object.Void{}
		case "null":
			return &object.Null{}
		case "panic-string":
			panic("host panic")
		case "panic-error":
			panic(errors.New("host error value"))
		case "panic-int":
			panic(42)
		case "panic-runtime":
			var m map[string]int
			m["x"] = 1
		}
		return &object.Integer{Value: 1}
	})
	e.SetContext(ctx)
	return ev
}

func (p *c08) check(o *Outcome, esc *Escaped, what string) bool {
	if esc == nil {
		return false
	}
	o.violate("C08/escaped-panic", esc.Entry+" "+esc.Frame, "%s: panic reached the caller of %s: %s", what, esc.Entry, esc.Value)
	return true
}

func (p *c08) apiCall(ev *c08Eval, api int, obj interface{}) Result {
	ev.ctx.Rearm(-1)
	ev.ctx.HardCap = c08HardCap
	var r Result
	under(ev.ctx, func() {
		if api == 1 {
			r = doRun(ev.e, obj)
		} else {
			r = doExecute(ev.e, obj)
		}
	})
	return r
}

// usable checks that an evaluator that has seen faults still serves a benign
// run whenever a fresh evaluator does.
func (p *c08) usable(o *Outcome, ev *c08Eval, text string, opt bool, after string) {
	saved := ev.hfFault
	ev.hfFault = ""
	ev.h.BoomAt, ev.h.NilAt, ev.h.PanicAtCall, ev.h.CancelAtCall = 0, 0, 0, 0
	ev.h.Maybe = []bool{false}
	benign := Obj{A: 1, B: 1, C: 1, S: "ab", Items: []int{1, 2}}
	snap := takeSnapshot(ev.e, []string{"g0", "g1", "g2", "g3", "c0", "c1", "c2", "c3", "x", "r"})
	r := p.apiCall(ev, 0, benign)
	ev.hfFault = saved
	if p.check(o, r.Escaped, "benign run after "+after) {
		return
	}
	fresh := p.newEval(text, "")
	if err, esc := doPrepare(fresh.e, opt); err != nil || esc != nil {
		return
	}
	fresh.h.Maybe = []bool{false}
	// the fresh evaluator gets the same variables: "usable" means that the
	// evaluator still does for a benign object what a new one would do
	snap.giveTo(fresh.e)
	rf := p.apiCall(fresh, 0, benign)
	if rf.Escaped != nil || rf.Failed {
		// (the script fails on this object or on its own state: nothing to compare)
		return
	}
	switch {
	case r.Failed:
		o.violate("C08/unusable-after-fault", after, "after %s the evaluator answers a benign run with %q although a fresh evaluator holding the same variables returns %s", after, r.Err, rf.Out)
	case r.Out != rf.Out:
		o.violate("C08/unusable-after-fault", after+" wrong-answer", "after %s the evaluator answers a benign run with %s, a fresh evaluator holding the same variables with %s", after, r.Out, rf.Out)
	}
}

const nestKinds = 21

func nested(kind int, n int) string {
	rep := strings.Repeat
	switch kind {
	case 0:
		return "return " + rep("(", n) + "1" + rep(")", n) + ";"
	case 1:
		return "return " + rep("[", n) + "1" + rep("]", n) + ";"
	case 2:
		return "return " + rep("-", n) + "1;"
	case 3:
		return "return " + rep("!", n) + "true;"
	case 4:
		return rep("if (1) { ", n) + "x = 1;" + rep(" }", n) + " return x;"
	case 5:
		return "return " + rep("{\"a\":", n) + "1" + rep("}", n) + ";"
	case 6:
		return "function f(a) { return a; } return " + rep("f(", n) + "1" + rep(")", n) + ";"
	case 7:
		return "return 1" + rep(" + 1", n) + ";"
	case 8:
		return rep("foreach x in [1] { ", n) + "y = 1;" + rep(" }", n) + " return y;"
	case 9:
		return rep("(", n)
	case 10:
		return "return \"" + rep("a", n*2) + "\";"
	case 11:
		return "x = [" + rep("1, ", n) + "1]; return len(x);"
	case 12:
		return rep("while (x < 1) { ", n) + "x = 1;" + rep(" }", n) + " return x;"
	case 13:
		return rep("switch (1) { case 1 { ", n) + "x = 1;" + rep(" } }", n) + " return x;"
	case 18:
		return "x = [0]; return " + rep("x[", n) + "0" + rep("]", n) + ";"
	case 20:
		// a block behind a constant condition, longer than a 16-bit jump can span
		return "x = 1; y = 2; z = x + y; if (false) { " + rep("y = y + 1; ", n/2+1) + "} return z;"
	case 19:
		// not nested as the user sees it: a long chain of else-if
		return "x = 0; if (x == 1) { y = 1; }" + rep(" else if (x == 2) { y = 2; }", n) + " else { y = 3; } return y;"
	case 14:
		// more distinct constants than a 16-bit operand can index
		var sb strings.Builder
		sb.WriteString("x = [")
		// (constant-pool insertion is quadratic in the engine, so this stays
		// below the 65535 boundary in the table; VERIF_C08_BIG=1 lifts it)
		m := n + n/2
		if m > 6000 && os.Getenv("VERIF_C08_BIG") == "" {
			m = 6000
		}
		for i := 0; i < m; i++ {
			fmt.Fprintf(&sb, "%d, ", 70000+i)
		}
		sb.WriteString("1]; return x[0] + len(x);")
		return sb.String()
	case 15:
		// a block longer than a 16-bit jump offset can span
		return "y = 0; if (y > 1) { " + rep("y = y + 1; ", n/2+1) + "} else { y = 7; } while (y < 9) { " + rep("y++; ", 3) + "} return y;"
	case 16:
		// a function body and a foreach body longer than 64 KB of bytecode
		return "function big(a) { " + rep("a = a + 1; ", n/3+1) + "return a; } t = 0; foreach v in [1, 2] { " + rep("t = t + v; ", n/3+1) + "} return big(t);"
	default:
		// very many string constants and function definitions
		var sb strings.Builder
		for i := 0; i < n/20+1; i++ {
			fmt.Fprintf(&sb, "function f%d() { return \"s%d\"; } ", i, i)
		}
		sb.WriteString("return f0();")
		return sb.String()
	}
}

// pokeUnprepared calls Run and Execute on an evaluator whose Prepare failed:
// both must come back (with an error) - no panic, no blocked call.
func (p *c08) pokeUnprepared(o *Outcome, ev *c08Eval) {
	for _, api := range []int{1, 0, 1} {
		r := p.apiCall(ev, api, Obj{A: 1})
		if p.check(o, r.Escaped, "call after a failed Prepare") {
			return
		}
	}
	_, _, desc := doDump(ev.e)
	p.check(o, desc, "Dump after a failed Prepare")
}

// prepareAndPoke prepares text and exercises every entry point on it.
func (p *c08) prepareAndPoke(o *Outcome, st *Stats, text string, opt bool, sample map[string]interface{}) {
	ev := p.newEval(text, "")
	if len(text)%3 == 0 {
		// a host that forgets Prepare altogether gets errors, not panics
		p.pokeUnprepared(o, ev)
		func() {
			defer func() {
				if r := recover(); r != nil {
					o.violate("C08/escaped-panic", "GetVariable before Prepare", "GetVariable on an evaluator that was never prepared panicked: %v", r)
				}
			}()
			ev.e.GetVariable("x")
			ev.e.SetVariable("x", &object.Integer{Value: 1})
		}()
		if len(o.V) > 0 {
			return
		}
	}
	err, esc := doPrepare(ev.e, opt)
	if p.check(o, esc, fmt.Sprintf("Prepare of %q", clip(text, 80))) {
		return
	}
	if err != nil {
		sample["prepare"] = err.Error()
		p.pokeUnprepared(o, ev)
		return
	}
	r := p.apiCall(ev, 0, Obj{A: 1, S: "ab"})
	sample["result"] = r.String()
	if p.check(o, r.Escaped, "Execute") {
		return
	}
	_, _, desc := doDump(ev.e)
	if p.check(o, desc, "Dump") {
		return
	}
	r2 := p.apiCall(ev, 1, nil)
	p.check(o, r2.Escaped, "Run")
}

func (p *c08) mutate(c *verifsim.Chooser, text string) (string, string) {
	toks := reTok.FindAllString(text, -1)
	n := 1 + c.Intn(3)
	var kinds []string
	for i := 0; i < n && len(toks) > 0; i++ {
		pos := c.Intn(len(toks))
		switch c.Intn(9) {
		case 0:
			toks = append(toks[:pos], toks[pos+1:]...)
			kinds = append(kinds, "delete")
		case 1:
			toks = append(toks[:pos+1], toks[pos:]...)
			kinds = append(kinds, "duplicate")
		case 2:
			if pos+1 < len(toks) {
				toks[pos], toks[pos+1] = toks[pos+1], toks[pos]
			}
			kinds = append(kinds, "swap")
		case 3:
			toks = toks[:pos]
			kinds = append(kinds, "truncate")
		case 4:
			ins := hostileDict[c.Intn(len(hostileDict))]
			toks = append(toks[:pos], append([]string{ins}, toks[pos:]...)...)
			kinds = append(kinds, "insert")
		case 5:
			toks[pos] = hostileDict[c.Intn(len(hostileDict))]
			kinds = append(kinds, "replace")
		case 6:
			d := 1 + c.Intn(40)
			br := [][2]string{{"(", ")"}, {"[", "]"}, {"{", "}"}}[c.Intn(3)]
			toks[pos] = strings.Repeat(br[0], d) + toks[pos] + strings.Repeat(br[1], d)
			kinds = append(kinds, "wrap")
		case 7:
			// cut a token in half (unterminated strings / regexps)
			t := toks[pos]
			if len(t) > 1 {
				toks[pos] = t[:len(t)/2]
			}
			toks = toks[:pos+1]
			kinds = append(kinds, "cut")
		default:
			b := []byte{0, 0xff, 0xc3, '\n', '\r', '\t', 0x7f, 0xe2}[c.Intn(8)]
			toks[pos] = toks[pos] + string([]byte{b})
			kinds = append(kinds, "byte")
		}
	}
	return strings.Join(toks, ""), strings.Join(kinds, "+")
}

func (p *c08) Run(c *verifsim.Chooser, st *Stats, render bool) *Outcome {
	o := &Outcome{}
	// weighted: 0 history x5, hostile text x3, tables x1 each, nesting, recursion
	mode := []int{0, 1, 2, 3, 4, 5, 0, 0, 0, 0, 3, 3, 6, 7, 8, 9, 10, 11, 12, 13, 14}[c.Intn(21)]
	sample := map[string]interface{}{}
	defer func() {
		if render {
			if s, ok := sample["script"].(string); ok && len(s) > 600 {
				sample["script"] = s[:300] + fmt.Sprintf(" …(%d bytes)… ", len(s)) + s[len(s)-100:]
			}
			o.Sample = sample
		}
	}()
	switch mode {
	case 1: // odd object table
		text := c08FieldScripts[c.Intn(len(c08FieldScripts))]
		ob := p.objs[c.Intn(len(p.objs))]
		api := c.Intn(2)
		opt := c.Intn(2) == 0
		if strings.HasPrefix(ob.name, "forty ") && strings.Contains(text, "G") && text != "return G;" {
			// printing or walking a value with 2^40 paths needs more memory
			// than any host has: the property's own exclusion (the object is
			// in the table for what the *conversion* does with it)
			st.probe("excluded:prints-a-value-with-2^40-paths")
			return o
		}
		setDesc("object-table " + ob.name)
		sample["mode"], sample["script"], sample["object"], sample["front_end"] = "odd-object table", text, ob.name, []string{"Execute", "Run"}[api]
		o.Digest.Str(text + ob.name)
		ev := p.newEval(text, "")
		err, esc := doPrepare(ev.e, opt)
		if p.check(o, esc, "Prepare") || err != nil {
			return o
		}
		r := p.apiCall(ev, api, ob.v)
		sample["result"] = r.String()
		o.Digest.Str(r.String())
		o.Nontrivial = true
		st.fault("odd-object")
		if r.Failed {
			st.probe("odd-object-run-failed-with-error")
		}
		if p.check(o, r.Escaped, fmt.Sprintf("script %q on object %s", text, ob.name)) {
			return o
		}
		_, _, desc := doDump(ev.e)
		if p.check(o, desc, "Dump after odd object") {
			return o
		}
		p.usable(o, ev, text, opt, "odd-object")
	case 2: // host fault table
		text := c08HostPositions[c.Intn(len(c08HostPositions))]
		fault := c08HostFaults[c.Intn(len(c08HostFaults))]
		api := c.Intn(2)
		opt := c.Intn(2) == 0
		setDesc("host-fault " + fault)
		sample["mode"], sample["script"], sample["host_fault"], sample["front_end"] = "host-function fault table", text, fault, []string{"Execute", "Run"}[api]
		o.Digest.Str(text + fault)
		ev := p.newEval(text, fault)
		err, esc := doPrepare(ev.e, opt)
		if p.check(o, esc, "Prepare") || err != nil {
			st.probe("prepare-failed")
			return o
		}
		r := p.apiCall(ev, api, Obj{A: 1})
		sample["result"] = r.String()
		o.Digest.Str(r.String())
		o.Nontrivial = true
		st.fault("host-" + fault)
		if p.check(o, r.Escaped, fmt.Sprintf("host function fault %s in %q", fault, text)) {
			return o
		}
		p.usable(o, ev, text, opt, "host-"+fault)
	case 5: // recursion
		text := c08Recursion[c.Intn(len(c08Recursion))]
		api := c.Intn(2)
		opt := c.Intn(2) == 0
		setDesc("recursion")
		sample["mode"], sample["script"] = "recursion", text
		o.Digest.Str(text)
		ev := p.newEval(text, "")
		nolimit := verifsim.NewSimContext(-1) // no deadline at all: the engine must cope by itself
		ev.e.SetContext(nolimit)
		err, esc := doPrepare(ev.e, opt)
		if p.check(o, esc, "Prepare") || err != nil {
			return o
		}
		var r Result
		ev.h.Maybe = []bool{true}
		under(nolimit, func() {
			if api == 1 {
				r = doRun(ev.e, Obj{A: 7, B: 0})
			} else {
				r = doExecute(ev.e, Obj{A: 7, B: 0})
			}
		})
		sample["result"] = r.String()
		o.Digest.Str(r.String())
		o.Nontrivial = true
		st.fault("unbounded-recursion")
		ev.e.SetContext(ev.ctx)
		if p.check(o, r.Escaped, "recursion") {
			return o
		}
		p.usable(o, ev, text, opt, "recursion")
	case 9: // built-ins with odd constant arguments
		fn := c08Builtins[c.Intn(len(c08Builtins))]
		args := c08BuiltinArgs[c.Intn(len(c08BuiltinArgs))]
		text := fmt.Sprintf([]string{"return %s(%s);", "x = %s(%s); if (x) { return 1; } return x;"}[c.Intn(2)], fn, args)
		if fn == "print" || fn == "printf" || fn == "panic" {
			text = fmt.Sprintf("%s(%s); return 1;", fn, args)
		}
		setDesc("builtin " + fn)
		sample["mode"], sample["script"] = "built-in with odd arguments", text
		o.Digest.Str("builtin" + text)
		o.Nontrivial = true
		st.fault("builtin-odd-arguments")
		p.prepareAndPoke(o, st, text, c.Intn(2) == 0, sample)
	case 14: // an integer result
		n := c.Intn(70001)
		shape := c.Intn(3)
		opt := c.Intn(2) == 0
		text := []string{"return %d;", "x = %d; return x;", "return %d + 0 - 1 + 1;"}[shape]
		text = fmt.Sprintf(text, n)
		setDesc("integer result")
		sample["mode"], sample["script"] = "integer result", text
		o.Digest.Str("int" + text)
		o.Nontrivial = true
		st.fault("integer-result")
		ev := p.newEval(text, "")
		err, esc := doPrepare(ev.e, opt)
		if p.check(o, esc, "Prepare") || err != nil {
			return o
		}
		for api := 1; api >= 0; api-- {
			r := p.apiCall(ev, api, nil)
			if p.check(o, r.Escaped, fmt.Sprintf("%s of %q", []string{"Execute", "Run"}[api], text)) {
				return o
			}
			if api == 0 && !r.Failed && r.Out != fmt.Sprintf("INTEGER:%d", n) {
				o.violate("C08/unusable-after-fault", "integer result", "%q returned %s", text, r.Out)
			}
		}
	case 13: // valid scripts made of unusual material: prepare, dump, run twice, dump
		text := c08Unusual[c.Intn(len(c08Unusual))]
		opt := c.Intn(2) == 0
		setDesc("unusual material")
		sample["mode"], sample["script"] = "valid script of unusual material", text
		o.Digest.Str("unusual" + text)
		o.Nontrivial = true
		st.fault("unusual-material")
		ev := p.newEval(text, "")
		err, esc := doPrepare(ev.e, opt)
		if p.check(o, esc, "Prepare of a valid script") {
			return o
		}
		if err != nil {
			o.violate("C08/harness", "unusual script does not prepare", "%v\n%s", err, text)
			return o
		}
		for i := 0; i < 2; i++ {
			_, _, desc := doDump(ev.e)
			if p.check(o, desc, "Dump of a valid script of unusual material") {
				return o
			}
			r := p.apiCall(ev, i, Obj{A: 1, S: "user@example.com", Items: []int{1}})
			sample["result"] = r.String()
			if p.check(o, r.Escaped, "run of a valid script of unusual material") {
				return o
			}
		}
	case 11: // the same malformed fragment several times in one construct
		cont := c08Containers[c.Intn(len(c08Containers))]
		atom := c08BadAtoms[c.Intn(len(c08BadAtoms))]
		n := strings.Count(cont, "%s")
		args := make([]interface{}, n)
		for i := range args {
			args[i] = atom
		}
		text := fmt.Sprintf(cont, args...)
		setDesc("repeated malformed fragment")
		sample["mode"], sample["script"] = "repeated malformed fragment", text
		o.Digest.Str("rep" + text)
		o.Nontrivial = true
		st.fault("repeated-malformed-fragment")
		p.prepareAndPoke(o, st, text, c.Intn(2) == 0, sample)
	case 12: // bulk: very many distinct things of one kind in one process (caches, pools and tables with a limit)
		b := c08Bulk[c.Intn(len(c08Bulk))]
		opt := c.Intn(2) == 0
		api := c.Intn(2)
		setDesc("bulk " + b.name)
		sample["mode"], sample["script"] = "bulk: "+b.name, b.text
		o.Digest.Str("bulk" + b.text)
		o.Nontrivial = true
		st.fault("bulk")
		ev := p.newEval(b.text, "")
		err, esc := doPrepare(ev.e, opt)
		if p.check(o, esc, "Prepare of a bulk script") || err != nil {
			return o
		}
		for i := 0; i < 2; i++ {
			stillAlive()
			ev.ctx.Rearm(-1)
			ev.ctx.HardCap = 400000
			var r Result
			under(ev.ctx, func() {
				if api == 1 {
					r = doRun(ev.e, Obj{A: i, S: "user-7", Items: []int{1, 2}})
				} else {
					r = doExecute(ev.e, Obj{A: i, S: "user-7", Items: []int{1, 2}})
				}
			})
			sample["result"] = r.String()
			o.Digest.Str(r.String())
			if p.check(o, r.Escaped, "bulk script "+b.name) {
				return o
			}
		}
		p.usable(o, ev, b.text, opt, "bulk")
	case 10: // string escapes: every character after a backslash, input ending 0..5 characters later
		ch := c08EscapeChars[c.Intn(len(c08EscapeChars))]
		k := c.Intn(7)
		term := c.Intn(2) == 1
		prefix := []string{"return ", "", "x = \"ab\";\nreturn x + ", "function f(a) { return a; }\nif (f(1)) { y = "}[c.Intn(4)]
		text := prefix + "\"a\\" + ch + "26af0z"[:k]
		if term {
			text += "\";"
		}
		setDesc(fmt.Sprintf("string escape \\%q +%d", ch, k))
		sample["mode"], sample["script"] = "string escape", text
		o.Digest.Str("esc" + text)
		o.Nontrivial = true
		st.fault("string-escape")
		p.prepareAndPoke(o, st, text, k%2 == 0, sample)
	case 8: // lexer / parser edge table
		edge := c08LexEdges[c.Intn(len(c08LexEdges))]
		prefix := []string{"", "return ", "x = 1;\nreturn x + ", "function f(a) { return a; }\nif (f(1)) { y = "}[c.Intn(4)]
		text := prefix + edge
		if c.Intn(3) == 1 {
			text += "\n"
		}
		setDesc("lexer edge")
		sample["mode"], sample["script"] = "lexer/parser edge", text
		o.Digest.Str("edge" + text)
		o.Nontrivial = true
		st.fault("lexer-edge")
		p.prepareAndPoke(o, st, text, c.Intn(2) == 0, sample)
	case 7: // constant expressions (folded by the optimizer during Prepare)
		op := c08ConstOps[c.Intn(len(c08ConstOps))]
		a := c08ConstVals[c.Intn(len(c08ConstVals))]
		b := c08ConstVals[c.Intn(len(c08ConstVals))]
		text := fmt.Sprintf(c08ConstShapes[c.Intn(len(c08ConstShapes))], a, op, b)
		opt := c.Intn(2) == 0
		setDesc("constant expression " + text)
		sample["mode"], sample["script"], sample["optimizer"] = "constant expression", text, opt
		o.Digest.Str(text)
		ev := p.newEval(text, "")
		err, esc := doPrepare(ev.e, opt)
		o.Nontrivial = true
		st.fault("constant-expression")
		if p.check(o, esc, fmt.Sprintf("Prepare of %q (optimizer %v)", text, opt)) || err != nil {
			return o
		}
		r := p.apiCall(ev, c.Intn(2), nil)
		sample["result"] = r.String()
		o.Digest.Str(r.String())
		if p.check(o, r.Escaped, fmt.Sprintf("run of %q", text)) {
			return o
		}
		_, _, desc := doDump(ev.e)
		p.check(o, desc, "Dump of a constant expression")
	case 6: // values nested deeply at run time, then printed
		si := c.Intn(len(c08RuntimeNest))
		n := 1 + c.Intn(400000)
		if n != 400000 && n > 3000 {
			n = 1 + n%3000 // random cases stay moderate; the table has the deep end
		}
		text := fmt.Sprintf(c08RuntimeNest[si], n)
		setDesc(fmt.Sprintf("runtime nesting %d depth %d", si, n))
		sample["mode"], sample["script"] = "runtime nesting", text
		o.Digest.Str(text)
		ev := p.newEval(text, "")
		err, esc := doPrepare(ev.e, c.Intn(2) == 0)
		if p.check(o, esc, "Prepare") || err != nil {
			return o
		}
		ev.ctx.Rearm(-1)
		ev.ctx.HardCap = 20 * int64(n) + 1000
		var r Result
		under(ev.ctx, func() { r = doExecute(ev.e, nil) })
		sample["result"] = clip(r.String(), 80)
		o.Nontrivial = true
		st.fault("runtime-nesting")
		st.max("runtime_nesting_depth", int64(n))
		if p.check(o, r.Escaped, "printing a value nested at run time") {
			return o
		}
		ev.ctx.Rearm(-1)
		ev.ctx.HardCap = 20*int64(n) + 1000
		var r2 Result
		under(ev.ctx, func() { r2 = doRun(ev.e, nil) })
		p.check(o, r2.Escaped, "Run on a value nested at run time")
	case 4: // deep nesting
		kind := c.Intn(nestKinds)
		lim := 50001
		if kind == 19 {
			lim = 600001 // (a chain: cheap per link)
		}
		depth := 1 + c.Intn(lim)
		if c.Intn(8) != 1 {
			depth = 1 + depth%3000 // mostly moderate depths; the table covers the deep end
		}
		text := nested(kind, depth)
		setDesc(fmt.Sprintf("nesting kind %d depth %d", kind, depth))
		sample["mode"], sample["script"], sample["depth"] = "deep nesting", text, depth
		o.Digest.Str(fmt.Sprintf("nest %d %d", kind, depth))
		ev := p.newEval(text, "")
		err, esc := doPrepare(ev.e, c.Intn(2) == 0)
		o.Nontrivial = true
		st.fault("deep-nesting")
		st.max("nesting_depth", int64(depth))
		if p.check(o, esc, fmt.Sprintf("Prepare of nesting kind %d depth %d", kind, depth)) || err != nil {
			sample["prepare"] = fmt.Sprint(err)
			return o
		}
		r := p.apiCall(ev, c.Intn(2), nil)
		sample["result"] = r.String()
		if p.check(o, r.Escaped, "run of deeply nested script") {
			return o
		}
		_, _, desc := doDump(ev.e)
		p.check(o, desc, "Dump of deeply nested script")
	case 3: // hostile text
		var base string
		if c.Intn(3) == 0 {
			base = c07Corpus[c.Intn(len(c07Corpus))]
		} else {
			base = GenScript(c, GenCfg{Funcs: true, Faults: true, Hashes: true, Prints: true}).Text
		}
		text, kinds := p.mutate(c, base)
		setDesc("hostile text " + kinds)
		sample["mode"], sample["script"], sample["mutations"] = "hostile text", text, kinds
		o.Digest.Str(text)
		ev := p.newEval(text, "")
		opt := c.Intn(2) == 0
		err, esc := doPrepare(ev.e, opt)
		o.Nontrivial = true
		st.fault("hostile-text:" + strings.Split(kinds, "+")[0])
		if p.check(o, esc, "Prepare of hostile text") {
			return o
		}
		if err != nil {
			st.probe("hostile-text-rejected")
			sample["prepare"] = err.Error()
			// a host that ignores the error and carries on must get
			// errors, not panics or a call that never returns
			p.pokeUnprepared(o, ev)
			return o
		}
		st.probe("hostile-text-accepted")
		obj, od := genObject(c)
		sample["object"] = od
		ev.h.Maybe = []bool{c.Bool(), c.Bool()}
		r := p.apiCall(ev, c.Intn(2), obj)
		sample["result"] = r.String()
		o.Digest.Str(r.String())
		if p.check(o, r.Escaped, "run of hostile text") {
			return o
		}
		_, _, desc := doDump(ev.e)
		if p.check(o, desc, "Dump of hostile text") {
			return o
		}
		r2 := p.apiCall(ev, 1, obj)
		p.check(o, r2.Escaped, "second run of hostile text")
	default: // generated script, fault history
		sc := GenScript(c, GenCfg{Funcs: true, Faults: true, Hashes: true, Prints: true})
		opt := c.Intn(2) == 0
		setDesc("fault history")
		sample["mode"], sample["script"] = "fault history", sc.Text
		o.Digest.Str(sc.Text)
		ev := p.newEval(sc.Text, "")
		err, esc := doPrepare(ev.e, opt)
		if p.check(o, esc, "Prepare") || err != nil {
			st.probe("prepare-failed")
			return o
		}
		n := 1 + c.Intn(6)
		var hist []string
		curText := sc.Text
		// API the pinned tree does not have (found by reflection): setters that
		// take a duration are given one, methods without arguments are called
		for _, m := range apiDurationSetters {
			d := []time.Duration{50 * time.Millisecond, time.Second, 0}[c.Intn(3)]
			if _, pan := apiCall(ev.e, m, d); pan != "" {
				o.violate("C08/escaped-panic", m, "%s(%v) panicked into the caller: %s", m, d, pan)
				return o
			}
			hist = append(hist, fmt.Sprintf("%s(%v)", m, d))
			st.probe("discovered-api:" + m)
		}
		for i := 0; i < n; i++ {
			for _, m := range apiNullary {
				if c.Intn(4) == 1 {
					if _, pan := apiCall(ev.e, m); pan != "" {
						o.violate("C08/escaped-panic", m, "%s() panicked into the caller: %s", m, pan)
						return o
					}
					hist = append(hist, m+"()")
					st.probe("discovered-api:" + m)
				}
			}
			if c.Intn(6) == 1 {
				// the host's user edits the filter: new text into the exported
				// Script field of the same evaluator, Prepare again
				nt, how := editedScript(c, curText)
				if c.Intn(8) == 1 {
					nt, how = p.mutate(c, curText)
					how = "hostile mutation " + how
				}
				ev.e.Script = nt
				if c.Intn(4) == 1 {
					opt = !opt
				}
				err, esc := doPrepare(ev.e, opt)
				hist = append(hist, fmt.Sprintf("Script = (%s); Prepare -> %v", how, err))
				sample["history"], sample["script_after_edit"] = hist, nt
				st.fault("script-edited-and-prepared-again")
				if p.check(o, esc, "Prepare after the Script field was changed ("+how+")") {
					return o
				}
				if err != nil {
					// the host ignores the error and carries on, then puts the
					// last good text back and prepares again: that must work
					// as it did before
					p.pokeUnprepared(o, ev)
					if len(o.V) > 0 {
						return o
					}
					ev.e.Script = curText
					err, esc = doPrepare(ev.e, opt)
					if p.check(o, esc, "Prepare of the earlier text after a failed Prepare ("+how+")") {
						return o
					}
					if err != nil {
						o.violate("C08/unusable-after-fault", "prepare-after-failed-prepare", "a text that prepared before is rejected after another text failed to prepare on the same evaluator (%s): %v", how, err)
						return o
					}
					hist = append(hist, "Script = (the earlier text); Prepare -> <nil>")
					nt = curText
				}
				curText = nt
				_, _, desc := doDump(ev.e)
				if p.check(o, desc, "Dump after the Script field was changed ("+how+")") {
					return o
				}
				p.usable(o, ev, curText, opt, "script-edit")
				if len(o.V) > 0 {
					return o
				}
			}
			var obj interface{}
			od := ""
			if c.Intn(3) == 1 {
				ob := p.objs[c.Intn(len(p.objs))]
				if strings.HasPrefix(ob.name, "forty ") {
					// (a generated script may print any member: the 2^40-path
					// objects stay with the table scripts that can afford them)
					ob = p.objs[0]
				}
				obj, od = ob.v, ob.name
			} else {
				obj, od = genObject(c)
			}
			bits := c.Intn(16)
			ev.h.Maybe = []bool{bits&1 != 0, bits&2 != 0, bits&4 != 0, bits&8 != 0}
			ev.h.BoomAt, ev.h.NilAt, ev.h.PanicAtCall, ev.h.CancelAtCall = 0, 0, 0, 0
			ev.h.nBoom, ev.h.nNil, ev.h.Calls = 0, 0, 0
			fault := ""
			k := int64(-1)
			switch c.Intn(6) {
			case 1:
				fault, k = "cancel", int64(c.Intn(300))
			case 2:
				fault = "host-panic"
				ev.h.PanicAtCall = 1 + c.Intn(6)
			case 3:
				fault = "host-nil"
				ev.h.NilAt = 1
			case 4:
				fault = "cancel-in-host"
				ev.h.CancelAtCall = 1 + c.Intn(6)
			case 5:
				fault = "host-panic"
				ev.h.BoomAt = 1
			}
			ev.ctx.Rearm(k)
			ev.ctx.HardCap = c08HardCap
			var r Result
			api := c.Intn(3)
			if api == 2 {
				_, _, desc := doDump(ev.e)
				if p.check(o, desc, "Dump in a fault history") {
					return o
				}
			}
			under(ev.ctx, func() {
				if api == 1 {
					r = doRun(ev.e, obj)
				} else {
					r = doExecute(ev.e, obj)
				}
			})
			hist = append(hist, fmt.Sprintf("%s on %s fault=%s -> %s", []string{"Execute", "Run", "Dump+Execute"}[api], od, fault, r.String()))
			sample["history"] = hist
			o.Digest.Str(r.String())
			if r.Failed {
				o.Nontrivial = true
				st.fault("history:" + classifyErr(r))
			}
			if p.check(o, r.Escaped, fmt.Sprintf("run %d of a fault history (object %s, fault %s)", i, od, fault)) {
				return o
			}
			if r.Failed && c.Intn(2) == 1 {
				p.usable(o, ev, curText, opt, classifyErr(r))
				if len(o.V) > 0 {
					return o
				}
			}
		}
	}
	return o
}
