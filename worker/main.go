// simworker runs the simulated cases of one property.  It is built by vcheck
// from /repo's current working tree through the overlay (tags: verif).
package main

import (
	"runtime/pprof"
	"encoding/binary"
	"encoding/json"
	"flag"
	"fmt"
	"os"
	"os/exec"
	"path/filepath"
	"strings"
	"sync"
	"sync/atomic"
	"time"

	"github.com/skx/evalfilter/v2/verifsim"
)

// ReplayFile is the on-disk form of a violation.
type ReplayFile struct {
	Property  string      `json:"property"`
	Class     string      `json:"class"`
	Signature string      `json:"signature"`
	Detail    string      `json:"detail"`
	Base      uint64      `json:"base_seed"`
	Tier      string      `json:"tier"`
	CaseIndex int         `json:"case_index"`
	Trace     []int32     `json:"trace,omitempty"`
	Minimised bool        `json:"minimised"`
	OrigLen   int         `json:"original_trace_len,omitempty"`
	Rendering interface{} `json:"rendering,omitempty"`
	Note      string      `json:"note,omitempty"`
}

// FoundViolation is what a worker reports to the coordinator.
type FoundViolation struct {
	Violation
	Replay    string `json:"replay"`
	CaseIndex int    `json:"case_index"`
	Count     int    `json:"count"`
}

// ShardResult is the summary a worker writes.
type ShardResult struct {
	Shard       int               `json:"shard"`
	Evaluations int               `json:"evaluations"`
	Enumerated  int               `json:"enumerated"`
	Random      int               `json:"random"`
	Nontrivial  int               `json:"nontrivial"`
	Ticks       int64             `json:"ticks"`
	Stats       *Stats            `json:"stats"`
	Violations  []*FoundViolation `json:"violations"`
	Samples     []interface{}     `json:"samples"`
	SelfTest    map[string]string `json:"selftest_digests"`
	WallS       float64           `json:"wall_s"`
	Complete    bool              `json:"complete"`
	NextCase    int               `json:"next_case"`
	TotalCases  int               `json:"total_cases"`
	EnumTotal   int               `json:"enum_total"`
	Extra       map[string]interface{} `json:"extra,omitempty"`
}

// runProp runs one case.  When the library under test starts goroutines or
// timers of its own (the rewriter says so), every case - not only C11's -
// runs as task 0 of a seeded scheduler: the library's goroutines become tasks
// that are interleaved with the harness at every instruction, lock and
// channel operation, deterministically, and go on living across the API calls
// of the case as real ones would.
func runProp(p Prop, c *verifsim.Chooser, st *Stats, render bool) *Outcome {
	verifsim.ResetTime()
	if !verifsim.LibrarySpawns || p.ID() == "C11" || p.ID() == "SIMTEST" {
		return p.Run(c, st, render)
	}
	var o *Outcome
	s := verifsim.NewSched(c, 20000000)
	s.StopWhen = s.Go(func() { o = p.Run(c, st, render) })
	s.Run()
	st.probe("case-run-under-the-scheduler(library starts goroutines)")
	if s.Spawned > 0 {
		st.fault("library-goroutine-interleaved")
	}
	if o == nil {
		o = &Outcome{}
		what := "did not finish"
		if s.Deadlock {
			what = "is blocked for ever together with every goroutine the library started (deadlock)"
		}
		o.violate(p.ID()+"/hang", "with-library-goroutines", "the harness task %s; %d goroutines were started by the library, %d scheduling steps", what, s.Spawned, s.Steps)
		o.Poisoned = true
	}
	return o
}

func makeProp(id string) Prop {
	switch id {
	case "C09":
		return newC09()
	}
	if f, ok := propFactories[id]; ok {
		return f()
	}
	fmt.Fprintf(os.Stderr, "simworker: unknown property %s\n", id)
	os.Exit(2)
	return nil
}

var propFactories = map[string]func() Prop{}

func chooserFor(p Prop, base uint64, enum [][]int32, idx int) *verifsim.Chooser {
	if idx < len(enum) {
		return verifsim.NewReplay(enum[idx])
	}
	return verifsim.NewChooser(verifsim.Mix(base, p.ID(), uint64(idx-len(enum))))
}

func hasViolation(o *Outcome, class, sig string) bool {
	for _, v := range o.V {
		if v.Class == class && v.Sig == sig {
			return true
		}
	}
	return false
}

var minimiseTick func()

var (
	minBudget = 45 * time.Second
	minSpent  time.Duration
)

// minimise shrinks a choice trace while the same class+signature persists.
func minimise(p Prop, trace []int32, class, sig string, deadline time.Time) []int32 {
	st := newStats()
	evals := 0
	external := false
	if ex, ok := p.(interface{ ExternalMinimise() bool }); ok && ex.ExternalMinimise() {
		external = true
	}
	test := func(t []int32) bool {
		if external {
			if evals > 120 || time.Now().After(deadline) {
				return false
			}
			evals++
			return externalCheck(p.ID(), t, class, sig)
		}
		if evals > 4000 || time.Now().After(deadline) {
			return false
		}
		evals++
		if minimiseTick != nil {
			minimiseTick()
		}
		o := runProp(p, verifsim.NewReplay(t), st, false)
		return hasViolation(o, class, sig)
	}
	cur := append([]int32(nil), trace...)
	// drop trailing zeros implicitly: an exhausted trace yields zeros
	trim := func() {
		for len(cur) > 0 && cur[len(cur)-1] == 0 {
			cur = cur[:len(cur)-1]
		}
	}
	trim()
	// 1. shortest failing prefix (binary search is unsound in general, so
	// halve greedily)
	for n := len(cur) / 2; n >= 1; n /= 2 {
		for len(cur) > n {
			cand := append([]int32(nil), cur[:len(cur)-n]...)
			if test(cand) {
				cur = cand
			} else {
				break
			}
		}
	}
	changed := true
	for pass := 0; changed && pass < 6; pass++ {
		changed = false
		// 2. delete chunks
		for n := len(cur) / 2; n >= 1; n /= 2 {
			for i := 0; i+n <= len(cur); {
				cand := append(append([]int32(nil), cur[:i]...), cur[i+n:]...)
				if test(cand) {
					cur = cand
					changed = true
				} else {
					i += n
				}
			}
		}
		// 3. zero, halve, decrement values
		for i := 0; i < len(cur); i++ {
			if cur[i] == 0 {
				continue
			}
			for _, v := range []int32{0, cur[i] / 2, cur[i] - 1} {
				if v >= cur[i] || v < 0 {
					continue
				}
				cand := append([]int32(nil), cur...)
				cand[i] = v
				if test(cand) {
					cur = cand
					changed = true
					break
				}
			}
		}
		trim()
	}
	return cur
}

// externalCheck re-executes a trace in a fresh worker process and reports
// whether the same class+signature shows up there.
func externalCheck(prop string, t []int32, class, sig string) bool {
	f, err := os.CreateTemp(os.Getenv("VERIF_TMP"), "cand-*.json")
	if err != nil {
		return false
	}
	defer os.Remove(f.Name())
	b, _ := json.Marshal(&ReplayFile{Property: prop, Class: class, Signature: sig, Trace: t})
	f.Write(b)
	f.Close()
	cmd := childCommand(os.Args[0], "-prop", prop, "-replay", f.Name())
	cmd.Env = os.Environ()
	done := make(chan error, 1)
	if err := cmd.Start(); err != nil {
		return false
	}
	go func() { done <- cmd.Wait() }()
	select {
	case err := <-done:
		if ee, ok := err.(*exec.ExitError); ok {
			return ee.ExitCode() == 1
		}
		return false
	case <-time.After(20 * time.Second):
		cmd.Process.Kill()
		<-done
		return false
	}
}

func writeJSON(path string, v interface{}) {
	b, err := json.MarshalIndent(v, "", " ")
	if err != nil {
		fmt.Fprintln(os.Stderr, "simworker:", err)
		os.Exit(2)
	}
	if err := os.WriteFile(path, b, 0o644); err != nil {
		fmt.Fprintln(os.Stderr, "simworker:", err)
		os.Exit(2)
	}
}

func sanitize(s string) string {
	r := strings.NewReplacer("/", "_", " ", "_", ":", "_", "(", "", ")", "", "*", "", "@", "_at_", "|", "_")
	s = r.Replace(s)
	if len(s) > 80 {
		s = s[:80]
	}
	return s
}

var stopProfile = func() {}

func main() {
	propID := flag.String("prop", "", "property id")
	tier := flag.String("tier", "quick", "quick|thorough")
	base := flag.Uint64("base", 1, "base seed (VERIF_SEED)")
	shard := flag.Int("shard", 0, "shard index")
	nshards := flag.Int("nshards", 1, "number of shards")
	out := flag.String("out", "", "output directory for shard results")
	replays := flag.String("replays", "replays", "directory for replay files")
	replay := flag.String("replay", "", "replay file to re-execute")
	oneCase := flag.Int("case", -1, "run only this case index (with rendering)")
	from := flag.Int("from", 0, "skip cases below this index")
	selfOnly := flag.Bool("selftest-only", false, "run only the self-test cases and report their digests")
	budget := flag.Float64("budget-s", 0, "wall-clock cap in seconds (0 = none)")
	scale := flag.Float64("scale", 1, "scale the number of random runs")
	skip := flag.String("skip", "", "comma-separated case indexes to skip (fatal in an earlier attempt)")
	coldSeed := flag.Uint64("cold-seed", 0, "(internal) run one case from this chooser seed in this fresh process and print its outcome")
	coldTrace := flag.String("cold-trace", "", "(internal) like -cold-seed, from a recorded trace")
	noMin := flag.Bool("no-minimise", false, "do not minimise violations (restarted shards)")
	stall := flag.Float64("stall-s", 10, "a single case running longer than this is reported as a hang and ends the worker (exit 3)")
	flag.Parse()
	if pf := os.Getenv("VERIF_CPUPROFILE"); pf != "" {
		// (development aid: where does a shard spend its time?)
		if f, err := os.Create(fmt.Sprintf("%s.%d", pf, *shard)); err == nil {
			pprof.StartCPUProfile(f)
			stopProfile = pprof.StopCPUProfile
		}
	}
	descToStderr = *oneCase >= 0
	skipSet := map[int]bool{}
	for _, f := range strings.Split(*skip, ",") {
		if f != "" {
			var n int
			fmt.Sscan(f, &n)
			skipSet[n] = true
		}
	}

	p := makeProp(*propID)
	if ts, ok := p.(interface{ SetTier(string) }); ok {
		ts.SetTier(*tier)
	}
	verifsim.SetMapPolicy(&verifsim.OrderPolicy{Kind: verifsim.OrdAsc})
	verifsim.CaptureStdout()

	if *replay != "" {
		os.Exit(doReplay(p, *replay))
	}
	if *coldSeed != 0 || *coldTrace != "" {
		c := verifsim.NewChooser(*coldSeed)
		if *coldTrace != "" {
			var tr []int32
			b, _ := os.ReadFile(*coldTrace)
			json.Unmarshal(b, &tr)
			c = verifsim.NewReplay(tr)
		}
		o := runProp(p, c, newStats(), true)
		b, _ := json.Marshal(map[string]interface{}{"digest": o.Digest.H, "nontrivial": o.Nontrivial, "ticks": o.Ticks, "violations": o.V, "trace": c.Values(), "sample": o.Sample})
		fmt.Println(string(b))
		return
	}

	enum := p.Enumerate(*tier)
	nrand := int(float64(p.RandomRuns(*tier)) * *scale)
	total := len(enum) + nrand
	start := time.Now()

	if *oneCase >= 0 {
		// (a case that blocks for ever must look like a hang to whoever
		// watches this process, not like Go's "all goroutines are asleep")
		// the same watchdog as in a shard: no sign of progress for stall
		// seconds is a hang (exit 3); a long case that keeps reporting
		// progress is not
		stillAlive()
		go func() {
			for {
				time.Sleep(200 * time.Millisecond)
				if time.Since(time.Unix(0, lastBeat.Load())).Seconds() > *stall {
					fmt.Fprintf(os.Stderr, "\nverif-watchdog: no progress for %.0fs\n", *stall)
					os.Exit(3)
				}
			}
		}()
		c := chooserFor(p, *base, enum, *oneCase)
		o := runProp(p, c, newStats(), true)
		rf := &ReplayFile{Property: p.ID(), Base: *base, Tier: *tier, CaseIndex: *oneCase, Trace: c.Values(), Rendering: o.Sample}
		if len(o.V) > 0 {
			rf.Class, rf.Signature, rf.Detail = o.V[0].Class, o.V[0].Sig, o.V[0].Detail
		}
		b, _ := json.MarshalIndent(rf, "", " ")
		fmt.Println(string(b))
		if len(o.V) > 0 {
			os.Exit(1)
		}
		return
	}

	st := newStats()
	res := &ShardResult{Shard: *shard, Stats: st, SelfTest: map[string]string{}, TotalCases: total, EnumTotal: len(enum)}
	seenSig := map[string]*FoundViolation{}
	var digests []uint64
	var curFile *os.File
	if *out != "" {
		os.MkdirAll(*out, 0o755)
		curFile, _ = os.OpenFile(filepath.Join(*out, fmt.Sprintf("shard-%d.cur", *shard)), os.O_CREATE|os.O_WRONLY, 0o644)
		beatFile = curFile
	}
	isSelf := func(i int) bool { return i < 40 || (i >= len(enum) && i < len(enum)+40) }
	sampleEvery := total / (*nshards * 6)
	if sampleEvery < 1 {
		sampleEvery = 1
	}
	var curBuf [24]byte
	complete := true
	var resMu sync.Mutex
	i := 0
	flush := func(final bool) {
		res.Complete = final && complete
		res.NextCase = i
		res.WallS = time.Since(start).Seconds()
		if *out == "" {
			return
		}
		name := fmt.Sprintf("shard-%d", *shard)
		if *selfOnly {
			name = fmt.Sprintf("self-%d", *shard)
		}
		writeJSON(filepath.Join(*out, name+".json.tmp"), res)
		os.Rename(filepath.Join(*out, name+".json.tmp"), filepath.Join(*out, name+".json"))
		buf := make([]byte, 8*len(digests))
		for j, d := range digests {
			binary.LittleEndian.PutUint64(buf[8*j:], d)
		}
		os.WriteFile(filepath.Join(*out, name+".digests"), buf, 0o644)
	}
	// in-process watchdog: a case that does not end cannot be interrupted
	// (the script neither polls its context nor calls the host), so the
	// worker reports it and exits; the coordinator confirms and restarts.
	var caseNo, caseStart atomic.Int64
	caseNo.Store(-1)
	go func() {
		for {
			time.Sleep(200 * time.Millisecond)
			n, st0 := caseNo.Load(), caseStart.Load()
			if n < 0 || st0 == 0 {
				continue
			}
			if b := lastBeat.Load(); b > st0 {
				st0 = b
			}
			if time.Since(time.Unix(0, st0)).Seconds() > *stall && caseNo.Load() == n {
				resMu.Lock()
				desc, _ := currentDesc.Load().(string)
				fv := &FoundViolation{Violation: Violation{Class: p.ID() + "/hang", Sig: desc,
					Detail: fmt.Sprintf("case %d did not end within %.0fs of wall clock (expected: milliseconds); the simulated context was not consulted and no host function was called, so the run could not be interrupted", n, *stall)},
					CaseIndex: int(n), Count: 1}
				rf := &ReplayFile{Property: p.ID(), Class: fv.Class, Signature: fv.Sig, Detail: fv.Detail, Base: *base, Tier: *tier, CaseIndex: int(n),
					Note: "replayed by case index; a hang reproduces as a hang (the replay command applies the same watchdog)"}
				os.MkdirAll(*replays, 0o755)
				path := filepath.Join(*replays, fmt.Sprintf("%s-hang-%d.json", p.ID(), n))
				writeJSON(path, rf)
				fv.Replay = path
				res.Violations = append(res.Violations, fv)
				flush(false)
				os.Exit(3)
			}
		}
	}()
	lastFlush := time.Now()
	// block-cyclic sharding: neighbouring cases (same script) share a worker
	const block = 256
	for ; i < total; i++ {
		if (i/block)%*nshards != *shard {
			continue
		}
		if i < *from || skipSet[i] {
			continue
		}
		if time.Since(lastFlush) > 2*time.Second {
			resMu.Lock()
			flush(false)
			resMu.Unlock()
			lastFlush = time.Now()
		}
		if *selfOnly && !isSelf(i) {
			if i >= len(enum)+40 {
				break
			}
			continue
		}
		if *budget > 0 && (res.Evaluations&63) == 0 && time.Since(start).Seconds() > *budget {
			complete = false
			break
		}
		if curFile != nil {
			n := copy(curBuf[:], fmt.Sprintf("%-20d\n", i))
			curFile.WriteAt(curBuf[:n], 0)
		}
		c := chooserFor(p, *base, enum, i)
		wantSample := len(res.Samples) < 4 && (res.Evaluations%sampleEvery) == sampleEvery/2
		caseStart.Store(time.Now().UnixNano())
		caseNo.Store(int64(i))
		o := runProp(p, c, st, wantSample)
		caseNo.Store(-1)
		resMu.Lock()
		res.Evaluations++
		if i < len(enum) {
			res.Enumerated++
		} else {
			res.Random++
		}
		res.Ticks += o.Ticks
		if o.Nontrivial {
			res.Nontrivial++
			digests = append(digests, o.Digest.H)
		}
		if isSelf(i) {
			res.SelfTest[fmt.Sprint(i)] = fmt.Sprintf("%016x", o.Digest.H)
		}
		if wantSample && o.Sample != nil && o.Nontrivial {
			res.Samples = append(res.Samples, o.Sample)
		}
		for _, v := range o.V {
			key := v.Class + "|" + v.Sig
			if fv, ok := seenSig[key]; ok {
				fv.Count++
				continue
			}
			fv := &FoundViolation{Violation: v, CaseIndex: i, Count: 1}
			seenSig[key] = fv
			res.Violations = append(res.Violations, fv)
			if *selfOnly {
				continue
			}
			trace := c.Values()
			// the watchdog stays armed while minimising (a candidate may
			// hang); it needs the lock to report
			resMu.Unlock()
			minimiseTick = func() { caseStart.Store(time.Now().UnixNano()); caseNo.Store(int64(i)) }
			// minimisation effort is bounded per violation and per worker,
			// so a tree that breaks the property in many ways still ends
			// the check in reasonable time
			per := 20 * time.Second
			if left := minBudget - minSpent; left < per {
				per = left
			}
			if *noMin || strings.HasSuffix(v.Class, "/native-divergence") {
				per = 0 // (native map order is not replayable choice by choice)
			}
			t0 := time.Now()
			min := trace
			if per > 0 {
				min = minimise(p, trace, v.Class, v.Sig, time.Now().Add(per))
			}
			minSpent += time.Since(t0)
			minimiseTick()
			ro := runProp(p, verifsim.NewReplay(min), newStats(), true)
			caseNo.Store(-1)
			resMu.Lock()
			rf := &ReplayFile{Property: p.ID(), Class: v.Class, Signature: v.Sig, Detail: v.Detail, Base: *base, Tier: *tier,
				CaseIndex: i, Trace: min, Minimised: per > 0, OrigLen: len(trace), Rendering: ro.Sample}
			for _, mv := range ro.V {
				if mv.Class == v.Class && mv.Sig == v.Sig {
					rf.Detail = mv.Detail
				}
			}
			if ex, ok := p.(interface{ ExternalMinimise() bool }); ok && ex.ExternalMinimise() {
				// the in-process re-run above only renders; reproduction
				// was established in fresh processes
				if per > 0 && !externalCheck(p.ID(), min, v.Class, v.Sig) {
					rf.Trace, rf.Minimised = trace, false
					rf.Note = "minimised trace did not reproduce in a fresh process; original trace kept"
				}
			} else if !hasViolation(ro, v.Class, v.Sig) {
				// should not happen: fall back to the unminimised trace
				rf.Trace, rf.Minimised = trace, false
				rf.Note = "minimised trace did not reproduce; original trace kept"
			}
			os.MkdirAll(*replays, 0o755)
			path := filepath.Join(*replays, fmt.Sprintf("%s-%s-%d.json", p.ID(), sanitize(v.Class[strings.Index(v.Class, "/")+1:]+"-"+v.Sig), i))
			writeJSON(path, rf)
			fv.Replay = path
			fv.Detail = rf.Detail
		}
		if o.Poisoned {
			i++
			flush(false)
			os.Exit(4)
		}
		resMu.Unlock()
	}
	resMu.Lock()
	if ex, ok := p.(interface{ Extra() map[string]interface{} }); ok {
		res.Extra = ex.Extra()
	}
	flush(true)
	stopProfile()
	if *out == "" {
		res.Complete = complete
		b, _ := json.MarshalIndent(res, "", " ")
		fmt.Println(string(b))
	}
}

// currentDesc is a short description of the running case (set by the
// property as early as it can), used as the signature of a hang.
var currentDesc atomic.Value

// lastBeat is when the running case last showed that it is making progress
// (its start, or a call of stillAlive): a long history is not a hang, a case
// that is stuck inside one call of the library is.
var lastBeat atomic.Int64

func stillAlive() {
	now := time.Now().UnixNano()
	prev := lastBeat.Swap(now)
	if beatFile != nil && now-prev > int64(200*time.Millisecond) {
		// (the coordinator watches this file: the case index stays, the beat moves)
		var b [16]byte
		n := copy(b[:], fmt.Sprintf("%-15d\n", now/1e6))
		beatFile.WriteAt(b[:n], 24)
	}
}

var beatFile *os.File

// descToStderr: a worker that runs a single case (a confirmation in isolation)
// also writes the description to stderr, so that the coordinator can tell
// which kind of workload a dying process was running.
var descToStderr bool

func setDesc(s string) {
	currentDesc.Store(s)
	if descToStderr {
		fmt.Fprintf(os.Stderr, "\nverif-case: %s\n", s)
	}
}

func doReplay(p Prop, path string) int {
	data, err := os.ReadFile(path)
	if err != nil {
		fmt.Fprintln(os.Stderr, "simworker:", err)
		return 2
	}
	var rf ReplayFile
	if err := json.Unmarshal(data, &rf); err != nil {
		fmt.Fprintln(os.Stderr, "simworker:", err)
		return 2
	}
	if ts, ok := p.(interface{ SetTier(string) }); ok && rf.Tier != "" {
		ts.SetTier(rf.Tier)
	}
	var c *verifsim.Chooser
	if rf.Trace != nil {
		c = verifsim.NewReplay(rf.Trace)
	} else {
		enum := p.Enumerate(rf.Tier)
		c = chooserFor(p, rf.Base, enum, rf.CaseIndex)
	}
	go func() {
		for {
			time.Sleep(time.Hour)
		}
	}()
	if strings.HasSuffix(rf.Class, "/hang") {
		go func() {
			stillAlive()
			for time.Since(time.Unix(0, lastBeat.Load())) < 12*time.Second {
				time.Sleep(200 * time.Millisecond)
			}
			fmt.Printf("the case is still running after 12s of wall clock\nVIOLATION property=%s replay=%s\n  class=%s signature=%s\n", p.ID(), path, rf.Class, rf.Signature)
			os.Exit(1)
		}()
	}
	o := runProp(p, c, newStats(), true)
	if strings.HasSuffix(rf.Class, "/native-divergence") {
		// Go's own map order cannot be dictated: repeat
		for n := 0; n < 200 && !hasViolation(o, rf.Class, rf.Signature); n++ {
			if rf.Trace != nil {
				c = verifsim.NewReplay(rf.Trace)
			} else {
				c = chooserFor(p, rf.Base, p.Enumerate(rf.Tier), rf.CaseIndex)
			}
			o = runProp(p, c, newStats(), true)
		}
	}
	b, _ := json.MarshalIndent(map[string]interface{}{"rendering": o.Sample, "violations": o.V}, "", " ")
	fmt.Println(string(b))
	if rf.Class == "" {
		if len(o.V) > 0 {
			fmt.Printf("VIOLATION property=%s replay=%s\n", p.ID(), path)
			return 1
		}
		return 0
	}
	if hasViolation(o, rf.Class, rf.Signature) {
		fmt.Printf("VIOLATION property=%s replay=%s\n", p.ID(), path)
		fmt.Printf("  class=%s signature=%s\n", rf.Class, rf.Signature)
		return 1
	}
	fmt.Printf("replay of %s did not reproduce %s [%s] on this tree\n", path, rf.Class, rf.Signature)
	return 0
}
