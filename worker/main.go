package main

import (
	"fmt"

	evalfilter "github.com/skx/evalfilter/v2"
	"github.com/skx/evalfilter/v2/verifsim"
)

func main() {
	e := evalfilter.New(`function f(a){ return a+1; } x = {"b":1,"a":2}; print(x, "\n"); while(true){ y = f(1);} return 1;`)
	ctx := verifsim.NewSimContext(100)
	e.SetContext(ctx)
	if err := e.Prepare(); err != nil {
		panic(err)
	}
	verifsim.CaptureStdout()
	out, err := e.Execute(nil)
	fmt.Println(out.Inspect(), err, ctx.Polls, ctx.PollsAfter, e.VerifScopes(), e.VerifStack(), verifsim.TakeStdout())
}
