package main

import (
	"bytes"
	"encoding/json"
	"fmt"
	"os"
	"os/exec"
	"path/filepath"
	"strings"
	"time"

	evalfilter "github.com/skx/evalfilter/v2"
	"github.com/skx/evalfilter/v2/verifsim"
)

// C20 (b): cmd/evalfilter executed inside the simulator.  The driver binary
// is built from /repo's sources with file reads, the -timeout timer and
// os.Exit behind seams (overlay); one scenario per driver process, so the
// exit status and stdout are the real ones.

type c20drv struct {
	sim, real string
	tmp       string
	n         int
	smokeDone int
}

func newC20drv() *c20drv {
	return &c20drv{sim: os.Getenv("VERIF_DRIVER_SIM"), real: os.Getenv("VERIF_DRIVER_REAL"), tmp: os.Getenv("VERIF_TMP")}
}

func (d *c20drv) extra() map[string]interface{} {
	return map[string]interface{}{"driver_processes_spawned": float64(d.n), "real_binary_smoke_comparisons": float64(d.smokeDone)}
}

var c20DrvScripts = []string{
	`return 1 + 2;`,
	`return Name == "Steve" && Age > 10;`,
	`print("hello ", Name, "\n"); return len(Name);`,
	`t = 0; foreach x in Items { t += x; } return t;`,
	`return {"a": Age, "b": [1, 2.5, "x"]};`,
	`return Missing;`,
	`return 1 / 0;`,
	`return Nested.Inner.Deep;`,
	`function f(n) { if (n < 1) { return 0; } return n + f(n - 1); } return f(Age);`,
	`return "text with 'quotes' and \"escapes\"\n";`,
	`return Name ~= /^st/i;`,
	`return [Name, Age, Flag, Nothing];`,
	`return Flag;`,
	`return Score * 2;`,
	`switch (Name) { case "Steve" { return 1; } case /x/ { return 2; } default { return 3; } }`,
	`x = 0; while (x < 50) { x++; } return x;`,
	`return;`,
	`return (1;`,
	``,
	`return keys(Nested);`,
	`return id;`,
	`return [Big, Age, Nested.n];`,
	"return len(\"a\r\nb\");",
	"x = \"line1\\\r\nline2\";\r\nreturn len(x);\r\n",
	"return \"\r\n\" == \"\n\";",
	`return "100%";`,
	`panic("quota 100% used by " + Name);`,
	`if (Age > 1) { panic("CPU above 90%d percent"); } return 1;`,
	`"50%" = 1;`,
	`return 1 % 0;`,
	`x = "%s%s%s%n"; return x + 1;`,
	`return ["%d", "50%s", "%", "%%", "%!t"];`,
	`return Pct;`,
	"return \"abc\n",
	"x = /ab\n",
	"return \"abc\\",
	"// only a comment\n",
	"return 1 +",
	"return \"a\\\r",
	"x = /(?i/;\n",
	"\n\n\n",
}

var c20DrvLoops = []string{
	`while (true) { }`,
	`function spin() { while (true) { x = 1; } } spin();`,
	`foreach x in 1..10 { while (true) { } } return 1;`,
	`n = 0; while (n >= 0) { n++; } return n;`,
	`function r(n) { return r(n + 1); } return r(0);`,
}

var c20DrvDocs = []string{
	`{"id":9007199254740993,"Big":12345678901234567890,"Items":[9007199254740993,1],"Age":4611686018427387905,"Name":"n","Nested":{"n":9007199254740993}}`,
	`{"Name":"Steve %s","Age":44,"Items":[1,2,3],"Pct":"95% of %d","Score":2.5,"Nested":{"%v":"%x"}}`,
	`{"Name":"Steve","Age":44,"Items":[1,2,3],"Flag":true,"Nothing":null,"Score":2.5,"Nested":{"Inner":{"Deep":"down"},"b":1}}`,
	`{"Name":"bob","Age":3,"Items":[],"Flag":false,"Score":-1,"Nested":{}}`,
	`{}`,
	`{"Name":"unicode é ☃","Age":1e2,"Items":[1.5,"two",null,{"k":1},[1]],"Score":12345678901234567890}`,
	`{"Age":"not a number","Name":5,"Items":{"a":1}}`,
}

// scenario is what the simulated driver main reads.
type scenario struct {
	Args     []string                     `json:"args"`
	Files    map[string]*verifsim.SimFile `json:"files"`
	HardCap  int64                        `json:"hard_cap"`
	StatFile string                       `json:"stat_file"`
}

// Draw layout of enumerated driver cases: [1 (= driver), kind, …]
//   kind 0: torn JSON   [.., doc, cut offset]   (every byte offset of every document)
//   kind 1: sub-command x flags x script table  [.., sub, flags, script]
func (d *c20drv) enumerate(tier string) [][]int32 {
	var out [][]int32
	for di, doc := range c20DrvDocs {
		step := 1
		if tier == "quick" && di > 1 {
			step = 3
		}
		for cut := 0; cut <= len(doc); cut += step {
			out = append(out, []int32{1, 0, int32(di), int32(cut)})
		}
	}
	for first := 0; first < len(c20DrvLoops)+16; first++ {
		for second := 0; second < 16; second++ {
			if tier == "quick" && (first+second)%4 != 0 {
				continue
			}
			out = append(out, []int32{1, 3, int32(first), int32(second), int32((first + second) % 3), int32(second % 2), 0, int32(first % 2)})
		}
	}
	for sub := 0; sub < 4; sub++ {
		for fl := 0; fl < 8; fl++ {
			for s := range c20DrvScripts {
				if tier == "quick" && (s+fl+sub)%3 != 0 {
					continue
				}
				out = append(out, []int32{1, 1, int32(sub), int32(fl), int32(s)})
			}
		}
	}
	return out
}

type drvResult struct {
	stdout string
	stderr string
	code   int
	stat   map[string]interface{}
	hung   bool
}

func (d *c20drv) spawn(bin string, sc *scenario, args []string) drvResult {
	stillAlive()
	defer stillAlive()
	d.n++
	var res drvResult
	cmd := childCommand(bin, args...)
	dir, err := os.MkdirTemp(d.tmp, "drv-")
	if err != nil {
		res.stderr = err.Error()
		res.code = -2
		return res
	}
	defer os.RemoveAll(dir)
	if sc != nil {
		sc.StatFile = filepath.Join(dir, "stat.json")
		b, _ := json.Marshal(sc)
		scPath := filepath.Join(dir, "scenario.json")
		os.WriteFile(scPath, b, 0o644)
		cmd.Env = append(os.Environ(), "VERIF_SCENARIO="+scPath)
	}
	cmd.Dir = dir
	var ob, eb bytes.Buffer
	cmd.Stdout, cmd.Stderr = &ob, &eb
	if err := cmd.Start(); err != nil {
		res.stderr = err.Error()
		res.code = -2
		return res
	}
	done := make(chan error, 1)
	go func() { done <- cmd.Wait() }()
	select {
	case err := <-done:
		if ee, ok := err.(*exec.ExitError); ok {
			res.code = ee.ExitCode()
		} else if err != nil {
			res.code = -2
		}
	case <-time.After(25 * time.Second):
		cmd.Process.Kill()
		<-done
		res.hung = true
	}
	res.stdout, res.stderr = ob.String(), eb.String()
	if sc != nil {
		if b, err := os.ReadFile(sc.StatFile); err == nil {
			json.Unmarshal(b, &res.stat)
		}
		if res.hung && res.stat != nil {
			// the driver had reached its end (it writes the statistics last):
			// on a saturated machine ten seconds can pass before a finished
			// process is reaped - that is not a driver that does not terminate
			res.hung = false
		}
	}
	return res
}

func (d *c20drv) run(c *verifsim.Chooser, st *Stats, render bool) *Outcome {
	o := &Outcome{}
	setDesc("driver scenario")
	if d.sim == "" {
		o.violate("C20/harness", "no-driver", "VERIF_DRIVER_SIM is not set")
		return o
	}
	kind := c.Intn(4) // 0 torn/faulty JSON, 1 sub-command table, 2 random scenario, 3 two scripts on one command line
	forcedSecond := ""
	sub := "run"
	var flags []string
	script := ""
	doc := ""
	haveDoc := false
	docFault, scriptFault := "", ""
	timeout := ""
	noOpt, debug := false, false
	switch kind {
	case 0:
		di := c.Intn(len(c20DrvDocs))
		full := c20DrvDocs[di]
		cut := c.Intn(len(full) + 1)
		doc, haveDoc = full[:cut], true
		if cut < len(full) {
			docFault = fmt.Sprintf("torn at byte %d of %d", cut, len(full))
		}
		script = c20DrvScripts[(di+cut)%8]
	case 1:
		sub = []string{"run", "lex", "parse", "bytecode"}[c.Intn(4)]
		fl := c.Intn(8)
		script = c20DrvScripts[c.Intn(len(c20DrvScripts))]
		noOpt = fl&1 != 0
		if fl&2 != 0 {
			doc, haveDoc = c20DrvDocs[0], true
		}
		if fl&4 != 0 {
			timeout = "5ms"
		}
	case 3:
		// `run [-timeout d] [-json doc] first second`: the first script may use
		// up its whole deadline; the second must be judged on its own
		all := append(append([]string{}, c20DrvLoops...), c20DrvScripts[:16]...)
		script = all[c.Intn(len(all))]
		forcedSecond = c20DrvScripts[c.Intn(16)]
		timeout = []string{"1ms", "300us", "2ms"}[c.Intn(3)]
		if c.Intn(2) == 1 {
			doc, haveDoc = c20DrvDocs[c.Intn(2)], true
		}
		noOpt = c.Intn(2) == 1
	default:
		sub = []string{"run", "run", "run", "lex", "parse", "bytecode"}[c.Intn(6)]
		switch c.Intn(5) {
		case 0:
			script = c20DrvScripts[c.Intn(len(c20DrvScripts))]
		case 1:
			script = GenScript(c, GenCfg{Funcs: true, Faults: true, Hashes: true, Prints: true}).Text
			script = strings.NewReplacer("maybe()", "true", "boom()", "1", "hnil(1)", "1", "hv(", "print(", "h(", "string(").Replace(script)
		case 2:
			script = c07Corpus[c.Intn(len(c07Corpus))]
			script = strings.NewReplacer("hv(", "print(", "h(", "string(").Replace(script)
		case 3:
			script = c20DrvLoops[c.Intn(len(c20DrvLoops))]
			timeout = []string{"1ms", "250us", "3ms", "1us", "-5ms"}[c.Intn(5)]
		default:
			base := c20DrvScripts[c.Intn(len(c20DrvScripts))]
			script, _ = (&c08{}).mutate(c, base)
		}
		noOpt = c.Intn(3) == 1
		debug = c.Intn(8) == 1
		if timeout == "" && c.Intn(3) == 1 {
			timeout = []string{"2ms", "10ms", "100us"}[c.Intn(3)]
		}
		if c.Intn(3) != 0 {
			haveDoc = true
			doc = c20DrvDocs[c.Intn(len(c20DrvDocs))]
			switch c.Intn(10) {
			case 1:
				docFault = "enoent"
			case 2:
				docFault = "eisdir"
			case 3:
				docFault = "eio"
			case 4:
				b := []byte(doc)
				if len(b) > 0 {
					i := c.Intn(len(b))
					b[i] ^= byte(1 << uint(c.Intn(8)))
					docFault = fmt.Sprintf("bit flip at byte %d", i)
				}
				doc = string(b)
			case 5:
				doc, docFault = "", "empty file"
			case 6:
				doc, docFault = []string{`[1,2]`, `"str"`, `42`, `null`, `true`}[c.Intn(5)], "not a JSON object"
			case 7:
				doc, docFault = "{\"Name\":\"\xff\xfe\"}", "invalid UTF-8"
			case 8:
				doc, docFault = `{"Age":1e999,"Score":-1e999}`, "number out of range"
			case 9:
				doc = doc + []string{" trailing", "{\"Age\":0}", "]", "\n{}", " ,", "\x00"}[c.Intn(6)]
				docFault = "garbage after the document"
			}
		}
		switch c.Intn(12) {
		case 1:
			scriptFault = "enoent"
		case 2:
			scriptFault = "eio"
		case 3:
			scriptFault = "eisdir"
		}
	}
	if kind == 2 && timeout == "" && sub == "run" {
		// generated / mutated text may loop; without a deadline a driver
		// that never returns would be correct behaviour, so give it one
		timeout = "20ms"
	}

	files := map[string]*verifsim.SimFile{"script.in": {Data: []byte(script), Fault: scriptFault}}
	args := []string{sub}
	if sub == "run" {
		if haveDoc {
			f := &verifsim.SimFile{Data: []byte(doc)}
			if docFault == "enoent" || docFault == "eisdir" || docFault == "eio" {
				f.Fault = docFault
			}
			files["doc.json"] = f
			flags = append(flags, "-json", "doc.json")
		}
		if timeout != "" {
			flags = append(flags, "-timeout", timeout)
		}
		if debug {
			flags = append(flags, "-debug")
		}
	}
	if noOpt && (sub == "run" || sub == "bytecode") {
		flags = append(flags, "-no-optimizer")
	}
	args = append(args, flags...)
	args = append(args, "script.in")
	// sometimes a second script on the same command line: nothing of the
	// first run may leak into the second (context, document)
	second := ""
	if forcedSecond != "" {
		second = forcedSecond
		files["second.in"] = &verifsim.SimFile{Data: []byte(second)}
		args = append(args, "second.in")
	} else if kind == 2 && sub == "run" && scriptFault == "" && c.Intn(6) == 1 {
		second = c20DrvScripts[c.Intn(16)]
		files["second.in"] = &verifsim.SimFile{Data: []byte(second)}
		args = append(args, "second.in")
	}
	sc := &scenario{Args: args, Files: files, HardCap: 400000}
	o.Digest.Str(strings.Join(args, " ") + "|" + script + "|" + doc + "|" + docFault + scriptFault)

	res := d.spawn(d.sim, sc, nil)
	o.Nontrivial = docFault != "" || scriptFault != "" || timeout != ""
	if docFault != "" {
		st.fault("json:" + strings.Fields(docFault)[0])
	}
	if scriptFault != "" {
		st.fault("script-file:" + scriptFault)
	}
	if timeout != "" {
		st.fault("timeout-flag")
	}
	st.probe("sub-command:" + sub)
	sig := sub
	if len(flags) > 0 {
		var fl []string
		for _, f := range flags {
			if strings.HasPrefix(f, "-") {
				fl = append(fl, f)
			}
		}
		sig += " " + strings.Join(fl, " ")
	}
	if docFault != "" {
		sig += " json:" + strings.Fields(docFault)[0]
	}
	sample := map[string]interface{}{"mode": "driver", "args": args, "script": script, "json": doc, "json_fault": docFault, "script_file_fault": scriptFault,
		"stdout": clip(res.stdout, 600), "exit": res.code}
	if render {
		o.Sample = sample
	}

	// every sub-command terminates normally
	if res.hung {
		o.violate("C20/driver", sig+" hang", "the driver did not terminate (25 s of wall clock; simulated hard cap 400000 polls)")
		return o
	}
	if res.code != 0 && res.code != 1 {
		// (status 1 would be an ordinary "it failed" exit; 2 is what a Go
		// program dies with, anything else is a signal or worse)
		o.violate("C20/driver", sig+" exit-status", "exit status %d (stderr: %s)", res.code, clip(res.stderr, 400))
		return o
	}
	if strings.Contains(res.stdout, "Panic at the disco") {
		o.violate("C20/driver", sig+" panic", "the driver's top-level recover fired:\n%s", clip(res.stdout, 1200))
		return o
	}
	if hc, _ := res.stat["hitcap"].(bool); hc {
		o.violate("C20/driver", sig+" not-stopped", "the script was still running after 400000 ticks although -timeout %s was given", timeout)
		return o
	}
	if ra, _ := res.stat["runaway"].(bool); ra {
		o.violate("C20/driver", sig+" not-stopped", "the script kept running for more than 65536 instructions after the -timeout %s deadline had passed on the simulated clock", timeout)
		return o
	}
	if sub != "run" {
		return o
	}
	// `run`: the report must be what Execute gives on the decoded document
	if scriptFault != "" {
		if strings.Contains(res.stdout, "Script gave result") {
			o.violate("C20/driver", sig+" ran-without-script", "a result was reported although the script file could not be read")
		}
		return o
	}
	obj := make(map[string]interface{})
	docOK := true
	if haveDoc {
		if docFault == "enoent" || docFault == "eisdir" || docFault == "eio" {
			docOK = false
		} else if err := json.Unmarshal([]byte(doc), &obj); err != nil {
			// (the wording of the decoding error is the driver's own
			// business: only "no result is reported" is required, below)
			docOK = false
			st.probe("json-rejected")
		} else {
			st.probe("json-accepted")
		}
	}
	if !docOK {
		if strings.Contains(res.stdout, "Script gave result") {
			o.violate("C20/driver", sig+" continued-after-json-error", "a result was reported although the JSON document could not be used: %s", clip(res.stdout, 300))
		}
		return o
	}
	// the library's own answer, under the same simulated deadline
	// the second script's report must be there too, after the first's
	checkSecond := func(after string) {
		if second == "" {
			return
		}
		e2 := evalfilter.New(second)
		var ctx2 *verifsim.SimContext
		if timeout != "" {
			dur, _ := time.ParseDuration(timeout)
			t2 := int64(dur) / 1000
			if dur <= 0 {
				t2 = 0
			}
			ctx2 = verifsim.NewSimContext(t2)
			ctx2.HardCap = 400000
			e2.SetContext(ctx2)
		}
		if err2, esc2 := doPrepare(e2, !noOpt); esc2 == nil {
			rest := res.stdout
			if i := strings.Index(rest, after); i >= 0 && after != "" {
				rest = rest[i+len(after):]
			}
			if err2 != nil {
				if !strings.Contains(rest, err2.Error()) {
					o.violate("C20/driver", sig+" second-script", "the second script does not compile (%v) but the output after the first report does not say so: %s", err2, clip(rest, 300))
				}
			} else {
				var r2 RawResult
				obj2 := make(map[string]interface{})
				if haveDoc {
					json.Unmarshal([]byte(doc), &obj2)
				}
				under(ctx2, func() { r2 = doExecuteRaw(e2, obj2) })
				verifsim.TakeStdout()
				switch {
				case r2.Escaped != nil:
				case r2.Failed:
					if !strings.Contains(rest, r2.Err) {
						o.violate("C20/driver", sig+" second-script", "the second script fails with %q when run by itself; output after the first report: %s", r2.Err, clip(rest, 300))
					}
				default:
					for _, tok := range []string{r2.Type, r2.Inspect, fmt.Sprint(r2.Truth)} {
						if !strings.Contains(rest, tok) {
							o.violate("C20/driver", sig+" second-script", "the second script gives type=%s value=%q truth=%v when run by itself; output after the first report lacks %q: %s", r2.Type, r2.Inspect, r2.Truth, tok, clip(rest, 300))
							break
						}
					}
				}
			}
		}
	}
	e := evalfilter.New(script)
	var ctx *verifsim.SimContext
	if timeout != "" {
		dur, _ := time.ParseDuration(timeout)
		ticks := int64(dur) / 1000
		if dur <= 0 {
			ticks = 0 // a deadline in the past: expired from the start
		}
		ctx = verifsim.NewSimContext(ticks)
		ctx.HardCap = 400000
		e.SetContext(ctx)
	}
	verifsim.CaptureStdout()
	err, esc := doPrepare(e, !noOpt)
	if esc != nil {
		return o // C08's business
	}
	if err != nil {
		if !strings.Contains(res.stdout, err.Error()) {
			o.violate("C20/driver", sig+" compile-error-not-reported", "Prepare fails with %q; stdout: %s", err.Error(), clip(res.stdout, 300))
		}
		return o
	}
	var r RawResult
	under(ctx, func() { r = doExecuteRaw(e, obj) })
	verifsim.TakeStdout()
	sample["library"] = r.String()
	if r.Escaped != nil {
		return o
	}
	if r.Failed {
		if !strings.Contains(res.stdout, r.Err) {
			o.violate("C20/driver", sig+" error-not-reported", "Execute fails with %q on this document; the driver printed: %s", r.Err, clip(res.stdout, 400))
		} else if second == "" && strings.Contains(res.stdout, "Script gave result") {
			o.violate("C20/driver", sig+" result-and-error", "Execute fails with %q but the driver also reports a result", r.Err)
		}
		if strings.Contains(r.Err, "timeout") {
			st.probe("driver-timeout-fired")
		}
		return o
	}
	for _, tok := range []string{r.Type, r.Inspect, fmt.Sprint(r.Truth)} {
		if !strings.Contains(res.stdout, tok) {
			o.violate("C20/driver", sig+" wrong-report", "Execute gives type=%s value=%q truth=%v; stdout lacks %q:\n%s", r.Type, r.Inspect, r.Truth, tok, clip(res.stdout, 500))
			return o
		}
	}
	if !strings.Contains(res.stdout, "type:"+r.Type) && !strings.Contains(res.stdout, r.Type) {
		o.violate("C20/driver", sig+" wrong-report", "type %s not reported", r.Type)
	}
	if second != "" {
		checkSecond(r.Inspect)
		return o
	}
	// black-box smoke: the shipped binary prints the same bytes on real files
	if d.real != "" && docFault == "" && timeout == "" && !debug && c.Intn(12) == 1 {
		dir, err := os.MkdirTemp(d.tmp, "real-")
		if err == nil {
			defer os.RemoveAll(dir)
			os.WriteFile(filepath.Join(dir, "script.in"), []byte(script), 0o644)
			if haveDoc {
				os.WriteFile(filepath.Join(dir, "doc.json"), []byte(doc), 0o644)
			}
			cmd := childCommand(d.real, args...)
			cmd.Dir = dir
			timer := time.AfterFunc(10*time.Second, func() { cmd.Process.Kill() })
			out, _ := cmd.Output()
			timer.Stop()
			d.smokeDone++
			st.probe("real-binary-smoke")
			if string(out) != res.stdout {
				o.violate("C20/driver", "simulated-vs-shipped-binary", "the shipped binary prints %q, the simulated build prints %q", clip(string(out), 300), clip(res.stdout, 300))
			}
		}
	}
	return o
}

func clip(s string, n int) string {
	if len(s) > n {
		return s[:n] + "…"
	}
	return s
}

// RawResult keeps the parts of an Execute result separately.
type RawResult struct {
	Type, Inspect string
	Truth         bool
	Err           string
	Failed        bool
	Escaped       *Escaped
}

func (r RawResult) String() string {
	if r.Escaped != nil {
		return "PANIC(" + r.Escaped.Value + ")"
	}
	if r.Failed {
		return "error(" + r.Err + ")"
	}
	return r.Type + ":" + r.Inspect
}

func doExecuteRaw(e *evalfilter.Eval, obj interface{}) RawResult {
	var r RawResult
	guard("Execute", &r.Escaped, func() {
		out, err := e.Execute(obj)
		if err != nil {
			r.Failed, r.Err = true, err.Error()
			return
		}
		r.Type, r.Inspect, r.Truth = string(out.Type()), out.Inspect(), out.True()
	})
	return r
}
