package main

import (
	"context"
	"fmt"
	"strings"
	"time"

	evalfilter "github.com/skx/evalfilter/v2"
	"github.com/skx/evalfilter/v2/verifsim"
)

// C09 — a deadline or cancellation stops any script promptly (DESIGN 3/C09).

const (
	c09B       = 32768 // ticks / host calls allowed after the cancellation instant (a few milliseconds of interpretation)
	c09TwinCap = 30000 // ticks after which the unfaulted twin is declared non-terminating
)

// Shape is one entry of the looping-shape catalogue.
type Shape struct {
	Family string // core/wrapper, the violation signature
	Text   string
	Rec    bool // recursive: cost grows with depth, enumerate fewer ticks
}

var c09Vars = []string{"n", "x", "z", "m", "q"}

func c09Catalogue() []Shape {
	type core struct {
		name, text string
		rec, term  bool
	}
	var cores []core
	bodies := []struct{ n, t string }{{"empty", ""}, {"tick", "tick();"}, {"work", "m = m + 1; tick();"}, {"quiet", "m = m + 1;"}}
	for _, b := range bodies {
		cores = append(cores,
			core{"while/" + b.n, "while (true) { " + b.t + " }", false, false},
			core{"for/" + b.n, "for (true) { " + b.t + " }", false, false},
			core{"counter/" + b.n, "n = 0; while (n >= 0) { n++; " + b.t + " }", false, false},
			core{"foreach-range/" + b.n, "while (true) { foreach x in 1..40 { " + b.t + " } }", false, false},
			core{"foreach-string/" + b.n, "while (true) { foreach x in \"abcdefgh\" { " + b.t + " } }", false, false},
			core{"foreach-hash/" + b.n, "while (true) { foreach k, x in {\"a\":1,\"b\":2,\"c\":3} { " + b.t + " } }", false, false},
			core{"nested-while/" + b.n, "while (true) { n = 0; while (n < 3) { n++; " + b.t + " } }", false, false},
			core{"inner-infinite/" + b.n, "while (true) { while (true) { " + b.t + " } }", false, false},
		)
	}
	cores = append(cores,
		core{"single-instruction/pow", "x = 1 ** 9000000000000000000; y = 2 ** 4611686018427387904;", false, true},
		core{"big-range/tick", "foreach x in 1..20000 { tick(); }", false, true},
		core{"term-while/tick", "n = 0; while (n < 10) { n++; tick(); } return n;", false, true},
		core{"term-foreach/tick", "foreach x in 1..20 { tick(); } return 7;", false, true},
		core{"term-straight/tick", "tick(); x = 3; tick(); return x;", false, true},
	)
	var out []Shape
	add := func(fam, text string, rec bool) { out = append(out, Shape{Family: fam, Text: text, Rec: rec}) }
	for _, c := range cores {
		add(c.name+"@top", c.text+" return 1;", false)
		add(c.name+"@func1", "function w1() { "+c.text+" return 2; } z = w1(); return z;", false)
		for _, k := range []int{2, 3, 5} {
			var sb strings.Builder
			for i := 1; i < k; i++ {
				fmt.Fprintf(&sb, "function w%d() { return w%d(); } ", i, i+1)
			}
			fmt.Fprintf(&sb, "function w%d() { %s return 3; } z = w1(); return z;", k, c.text)
			add(fmt.Sprintf("%s@func%d", c.name, k), sb.String(), false)
		}
		add(c.name+"@switch", "switch (1) { case 0 { x = 0; } case 1 { "+c.text+" } default { x = 9; } } return 1;", false)
		add(c.name+"@if", "if (true) { "+c.text+" } else { x = 1; } return 1;", false)
		add(c.name+"@else", "if (false) { x = 1; } else { "+c.text+" } return 1;", false)
		add(c.name+"@foreach-body", "foreach q in [1, 2] { "+c.text+" } return 1;", false)
		add(c.name+"@last-statement", c.text, false)
		add(c.name+"@func-call-last", "function w1() { "+c.text+" } w1();", false)
		add(c.name+"@func-call-last-assigned", "function w2() { "+c.text+" return 1; } function w1() { z = w2(); } w1();", false)
		add(c.name+"@after-unused-value", "len(\"x\"); "+c.text+" return 1;", false)
		add(c.name+"@func-after-unused-value", "function w1() { len(\"x\"); h(1); "+c.text+" return 2; } z = w1(); return z;", false)
		add(c.name+"@ternary-call", "function w1() { "+c.text+" return 1; } function w0() { return 0; } z = true ? w1() : w0(); return z;", false)
		add(c.name+"@func-in-switch", "function w1() { "+c.text+" return 1; } switch (2) { case 2 { z = w1(); } } return z;", false)
		add(c.name+"@func-in-foreach", "function w1() { "+c.text+" return 1; } foreach q in 1..3 { z = w1(); } return z;", false)
		add(c.name+"@func-in-loop-in-func", "function w2() { "+c.text+" return 1; } function w1() { n = 0; while (n < 2) { n++; z = w2(); } return z; } return w1();", false)
	}
	// no loop at all: a tree of calls (t1 calls t2 twice, … thirty levels:
	// 2^30 leaf calls), spinning through call entry and return only
	for _, b := range bodies {
		var sb strings.Builder
		for i := 1; i < 30; i++ {
			fmt.Fprintf(&sb, "function t%d() { x = t%d(); x = t%d(); return x; } ", i, i+1, i+1)
		}
		fmt.Fprintf(&sb, "function t30() { %s return 1; } ", b.t)
		add("call-tree/"+b.n+"@top", sb.String()+"z = t1(); return z;", false)
		add("call-tree/"+b.n+"@func", sb.String()+"function w1() { z = t1(); return z; } return w1();", false)
		add("call-tree/"+b.n+"@if-in-foreach", sb.String()+"foreach q in [1] { if (true) { z = t1(); } } return z;", false)
	}
	// a loop around every built-in function the library registers (also those
	// a change added: the list is discovered, see c08Builtins) with a number
	// for an argument: whatever a built-in does with it - wait, count, repeat -
	// happens on the simulated clocks
	for _, b := range c08Builtins {
		if b == "panic" || b == "print" || b == "printf" {
			continue
		}
		add("builtin-loop/"+b+"@top", "while (true) { q9 = "+b+"(3000); } return 1;", false)
		add("builtin-loop/"+b+"@func", "function w1() { q9 = "+b+"(\"x\", 3000); q8 = "+b+"(250); return 1; } while (true) { z = w1(); }", false)
	}
	// loops whose body is a call: spinning through call entry / return
	for _, b := range bodies {
		add("call-in-loop/"+b.n, "function w1() { q = 0; while (q < 3) { q++; "+b.t+" } return q; } while (true) { x = w1(); }", false)
		add("call-in-foreach-in-func-in-loop/"+b.n, "function w2() { "+b.t+" return 1; } function w1() { foreach q in 1..3 { x = w2(); } return x; } while (true) { z = w1(); }", false)
		add("recursion/"+b.n, "function r(n) { "+b.t+" return r(n + 1); } return r(0);", true)
		add("mutual-recursion/"+b.n, "function a(n) { "+b.t+" return b(n + 1); } function b(n) { "+b.t+" return a(n + 1); } return a(0);", true)
		add("recursion-in-loop/"+b.n, "function r(n) { "+b.t+" if (n > 5) { return n; } return r(n + 1); } while (true) { x = r(0); }", false)
	}
	return out
}

// Heavy single instructions.  A value that is tiny in memory but has 2^40
// paths (a = [a, a], forty times: a directed acyclic graph, not a tree) is
// handed to every operator and built-in.  Whatever walks it without looking
// at the context never finishes in practice; the work clock (DESIGN 2.5)
// makes that visible without waiting: the cancellation fires in the middle of
// the instruction, and more than c09BWork further work units inside the same
// instruction are "not stopped".
const c09InstrCap = 5000000 // work units after which an instruction of a run WITHOUT planned cancellation is given up (runaway protection only)

const c09BWork = 200000 // work units (loop iterations / function entries of the value and built-in code) allowed after the instant

var c09HeavyBuild = []struct{ name, text string }{
	{"array-dag", "a = [1]; i = 0; while (i < 40) { a = [a, a]; i++; } "},
	{"hash-dag", "a = {\"k\": 1}; i = 0; while (i < 40) { a = {\"k\": a, \"l\": a}; i++; } "},
	{"mixed-dag", "a = [1]; i = 0; while (i < 40) { a = {\"k\": [a, a]}; i++; } "},
}

var c09HeavyOps = func() []struct{ name, text string } {
	ops := []struct{ name, text string }{
		{"==", "x = a == a;"}, {"!=", "x = a != a;"}, {"<", "x = a < a;"}, {"+", "x = a + a;"}, {"in", "x = a in a;"}, {"in-array", "x = 1 in a;"}, {"~=", "x = a ~= /x/;"},
		{"hash-key", "x = {a: 1};"}, {"index-by", "x = {\"k\": 1}[a];"}, {"index", "x = a[0];"}, {"bang", "x = !a;"}, {"minus", "x = -a;"}, {"sqrt", "x = √a;"},
		{"if", "if (a) { x = 1; }"}, {"ternary", "x = a ? 1 : 2;"}, {"foreach", "foreach v in a { x = 1; }"}, {"foreach-kv", "foreach k, v in a { x = 1; }"},
		{"switch", "switch (a) { case 1 { x = 1; } default { x = 2; } }"}, {"case", "switch (1) { case a { x = 1; } default { x = 2; } }"},
		{"range", "x = 1..a;"}, {"++", "a++;"}, {"+=", "a += a;"}, {"call-arg", "function f(p) { return 1; } x = f(a);"},
	}
	for _, b := range c08Builtins {
		if b == "panic" || b == "print" || b == "printf" {
			continue // (output of unbounded size: C08's memory exclusion)
		}
		ops = append(ops, struct{ name, text string }{b + "()", "x = " + b + "(a);"})
		ops = append(ops, struct{ name, text string }{b + "(,)", "x = " + b + "(a, a);"})
	}
	ops = append(ops, struct{ name, text string }{"sprintf(%d)", "x = sprintf(\"%d\", a);"}, struct{ name, text string }{"sprintf(%v)", "x = sprintf(\"%v\", a);"},
		struct{ name, text string }{"join(a,str)", "x = join(a, \",\");"}, struct{ name, text string }{"between", "x = between(a, a, a);"},
		struct{ name, text string }{"split", "x = split(\"a\", a);"}, struct{ name, text string }{"replace", "x = replace(\"a\", a, a);"})
	return ops
}()

var c09HeavyT = []int64{1, 50, 5000}

type c09 struct {
	drv    *c20drv
	tier   string
	shapes []Shape
	twins  map[string]*c09Twin
}

type c09Twin struct {
	res     Result
	trace   []string
	vars    []string
	ticks   int64 // clock at natural end, or -1 if it hit the cap
	prepErr string
}

func newC09() *c09 {
	return &c09{shapes: c09Catalogue(), twins: map[string]*c09Twin{}, drv: newC20drv()}
}

func (p *c09) ID() string { return "C09" }

// SetTier: the real-timer cases exist in the thorough tier only.
func (p *c09) SetTier(t string) { p.tier = t }

// Draw layout: [mode, shape|…, opt, api, far-deadline flag, plan, k…]
//   mode 0 = catalogue shape, 1 = random generated script in a loop wrapper
//   plan 0 = never, 1 = at clock k, 2 = already expired, 3 = from inside host call j,
//        4 = deadline on the simulated clock with slow host functions

func (p *c09) Enumerate(tier string) [][]int32 {
	p.tier = tier
	var out [][]int32
	maxK := 260
	maxW := 160
	if tier == "thorough" {
		maxK = 5000
		maxW = 2500
	}
	if tier == "thorough" {
		for si := range p.shapes {
			out = append(out, []int32{2, int32(si), int32(si % 2)})
		}
	}
	for si := range p.shapes {
		if si%7 == 0 || tier == "thorough" {
			out = append(out, []int32{4, int32(si), int32(si % 4), int32(si % 2)})
		}
	}
	for b := range c09HeavyBuild {
		for op := range c09HeavyOps {
			for t := range c09HeavyT {
				out = append(out, []int32{3, int32(b), int32(op), int32((b + op) % 2), int32((op + t) % 2), int32(t)})
			}
		}
	}
	for si, s := range p.shapes {
		lim := maxK
		if s.Rec && lim > 1500 {
			lim = 1500
		}
		for opt := 0; opt < 2; opt++ {
			api := (si + opt) % 2
			// the prefix that reaches the steady state is enumerated
			// completely; both front ends alternate over shapes/flags
			out = append(out, []int32{0, int32(si), int32(opt), int32(api), 0, 2})
			out = append(out, []int32{0, int32(si), int32(opt), int32(1 - api), 1, 2})
			for k := 0; k <= lim; k++ {
				// every third instant on a context that also has a deadline
				dl := int32(0)
				if (k+si)%3 == 0 {
					dl = 1
				} else if (k+si)%7 == 1 {
					dl = 2
				}
				out = append(out, []int32{0, int32(si), int32(opt), int32(api), dl, 1, int32(k)})
			}
			for j := 1; j <= 12; j++ {
				out = append(out, []int32{0, int32(si), int32(opt), int32(1 - api), int32(j % 2), 3, int32(j)})
			}
			// every instant of the work clock in the prefix (sub-instruction
			// granularity; the draw is "1 + Intn(4000)", so w-1 is recorded)
			for w := 0; w < maxW; w++ {
				out = append(out, []int32{0, int32(si), int32(opt), int32(api), int32(w % 3), 5, int32(w)})
			}
		}
	}
	return out
}

// realTimer runs a catalogue shape under a genuine context.WithTimeout: the
// only place where wall-clock time is involved (thorough tier only).  It can
// fail only if the script outlives a 30 ms deadline by more than two seconds,
// twice in a row.
func (p *c09) realTimer(c *verifsim.Chooser, st *Stats, render bool) *Outcome {
	o := &Outcome{}
	s := p.shapes[c.Intn(len(p.shapes))]
	opt := c.Intn(2) == 0
	setDesc("real timer " + s.Family)
	o.Digest.Str("real-timer" + s.Text)
	var last time.Duration
	for attempt := 0; attempt < 2; attempt++ {
		ctx, cancel := context.WithTimeout(context.Background(), 30*time.Millisecond)
		e := evalfilter.New(s.Text)
		h := newHost(nil)
		h.install(e)
		e.SetContext(ctx)
		if err, esc := doPrepare(e, opt); err != nil || esc != nil {
			cancel()
			return o
		}
		t0 := time.Now()
		r := doExecute(e, nil)
		last = time.Since(t0)
		cancel()
		if render {
			o.Sample = map[string]interface{}{"mode": "real context.WithTimeout(30ms)", "script": s.Text, "result": r.String(), "returned_after": last.String()}
		}
		if last < 2*time.Second {
			st.fault("real-timer-runs")
			o.Nontrivial = true
			return o
		}
	}
	o.violate("C09/real-timer-late", s.Family, "with a real 30 ms deadline Execute returned only after %v (twice)", last)
	return o
}

// driverTimeout: the deadline as the command-line driver sets it up
// (`evalfilter run -timeout d script`), in the simulated driver process (file
// reads and the timer behind seams, everything else the driver's own code):
// a script that is still running when d has passed on the simulated clock
// must be stopped and reported.
func (p *c09) driverTimeout(c *verifsim.Chooser, st *Stats, render bool) *Outcome {
	o := &Outcome{}
	if p.drv.sim == "" {
		o.violate("C09/harness", "no-driver", "VERIF_DRIVER_SIM is not set")
		return o
	}
	var s Shape
	for tries := 0; ; tries++ {
		s = p.shapes[c.Intn(len(p.shapes))]
		if !strings.Contains(s.Family, "term-") && !strings.Contains(s.Family, "big-range") && !strings.Contains(s.Family, "single-instruction") || tries > 8 {
			break
		}
	}
	// the driver has no host functions: built-ins stand in for them
	text := "m = 0; n = 0; x = 0; z = 0; q = 0;\n" + strings.NewReplacer("tick();", "q9 = len(\"t\");", "h(1);", "q9 = len(\"h\");").Replace(s.Text)
	timeout := []string{"300us", "1ms", "2ms", "50us"}[c.Intn(4)]
	args := []string{"run", "-timeout", timeout}
	if c.Intn(2) == 1 {
		args = append(args, "-no-optimizer")
	}
	args = append(args, "script.in")
	setDesc("driver -timeout " + s.Family)
	o.Digest.Str("drv" + text + strings.Join(args, " "))
	sc := &scenario{Args: args, Files: map[string]*verifsim.SimFile{"script.in": {Data: []byte(text)}}, HardCap: 400000}
	res := p.drv.spawn(p.drv.sim, sc, nil)
	if render {
		o.Sample = map[string]interface{}{"mode": "driver", "args": args, "script": text, "stdout": clip(res.stdout, 400), "exit": res.code, "stat": res.stat}
	}
	o.Nontrivial = true
	st.fault("driver-timeout-flag")
	family := "driver " + s.Family
	switch {
	case res.hung:
		o.violate("C09/not-stopped", family, "`evalfilter %s` did not terminate (25 s of wall clock)", strings.Join(args, " "))
	case res.stat == nil:
		o.violate("C09/harness", "no-stat", "the simulated driver wrote no statistics (exit %d, stderr %s)", res.code, clip(res.stderr, 300))
	default:
		if hc, _ := res.stat["hitcap"].(bool); hc {
			o.violate("C09/not-stopped", family, "`evalfilter %s`: the script was still running after 400000 instructions although the deadline had passed on the simulated clock", strings.Join(args, " "))
		} else if ra, _ := res.stat["runaway"].(bool); ra {
			o.violate("C09/not-stopped", family, "`evalfilter %s`: the script kept running for more than 65536 instructions after the deadline", strings.Join(args, " "))
		} else if dur, _ := time.ParseDuration(timeout); toInt(res.stat["ticks"]) < int64(dur/time.Microsecond) {
			// the script ended by itself before the deadline
			st.probe("driver-script-ended-before-the-deadline")
		} else if !strings.Contains(res.stdout, "timeout") && !strings.Contains(res.stdout, "deadline") && !strings.Contains(res.stdout, "maximum call depth") {
			o.violate("C09/not-reported", family, "`evalfilter %s` ended without reporting the time-out: %s", strings.Join(args, " "), clip(res.stdout, 300))
		}
	}
	return o
}

// heavy: see c09HeavyBuild.
func (p *c09) heavy(c *verifsim.Chooser, st *Stats, render bool) *Outcome {
	o := &Outcome{}
	b := c09HeavyBuild[c.Intn(len(c09HeavyBuild))]
	op := c09HeavyOps[c.Intn(len(c09HeavyOps))]
	opt := c.Intn(2) == 0
	useRun := c.Intn(2) == 1
	T := c09HeavyT[c.Intn(len(c09HeavyT))]
	text := b.text + op.text + " return 1;"
	family := "heavy-instruction " + b.name + " " + op.name
	setDesc(family)
	o.Digest.Str(text)
	o.Digest.U64(uint64(T))

	ctx := verifsim.NewSimContext(-1)
	ctx.HardCap = 4000
	ctx.PanicAfter = c09B
	ctx.HeavyFireAt = T
	ctx.WorkCapAfter = c09BWork
	h := newHost(ctx)
	h.TotalBudget = 4000
	e := evalfilter.New(text)
	h.install(e)
	e.SetContext(ctx)
	if err, esc := doPrepare(e, opt); err != nil || esc != nil {
		st.probe("heavy-prepare-failed")
		return o
	}
	var r Result
	under(ctx, func() {
		if useRun {
			r = doRun(e, nil)
		} else {
			r = doExecute(e, nil)
		}
	})
	o.Ticks = ctx.Clock
	o.Digest.Str(r.String())
	o.Digest.U64(uint64(ctx.Work))
	if render {
		o.Sample = map[string]interface{}{"script": text, "family": family, "optimizer": opt, "front_end": map[bool]string{true: "Run", false: "Execute"}[useRun],
			"plan": fmt.Sprintf("cancel when one instruction has done %d work units", T), "result": r.String(), "ticks": ctx.Ticks, "work_units": ctx.Work,
			"most_work_in_one_instruction": ctx.MaxInInstr, "fired_inside_instruction": ctx.FiredInWork, "work_after_cancel": ctx.WorkAfter, "ticks_after_cancel": ctx.TicksAfter}
	}
	st.max("work_in_one_instruction", ctx.MaxInInstr)
	if r.Escaped != nil && !ctx.RunawayWork {
		o.violate("C09/escaped-panic", family, "panic crossed %s: %s", r.Escaped.Entry, r.Escaped.Value)
		return o
	}
	if !ctx.FiredInWork {
		// no instruction of this script did T units of work: nothing to cancel
		st.probe("heavy-not-heavy")
		if ctx.HitCap {
			o.violate("C09/disturbed", family, "the script did not end within %d instructions", ctx.HardCap)
		}
		return o
	}
	o.Nontrivial = true
	st.fault("cancel-inside-instruction")
	st.max("work_after_cancel", ctx.WorkAfter)
	switch {
	case ctx.RunawayWork:
		o.violate("C09/not-stopped-inside-instruction", runawayWalk(ctx.RunawayStack), "(%s) the context was cancelled while one instruction was at work (%d units done); %d work units later the same instruction was still running (interrupted by the simulator); script: %s", family, T, ctx.WorkAfter, text)
	case ctx.Runaway || ctx.TicksAfter > c09B:
		o.violate("C09/late", family, "%d ticks after the cancellation instant", ctx.TicksAfter)
	case !r.Failed:
		// the instruction completed and the script ended before the next
		// look at the context: only legitimate if it really was at its end
		if ctx.TicksAfter > 3 {
			o.violate("C09/not-reported", family, "cancelled inside an instruction, %d more instructions ran and no error was returned: %s", ctx.TicksAfter, r.String())
		} else {
			st.probe("cancelled-in-last-instruction")
		}
	}
	return o
}

func (p *c09) RandomRuns(tier string) int {
	if tier == "thorough" {
		return 3000000
	}
	return 300000
}

func (p *c09) twin(text string, opt bool, names []string, need int64) *c09Twin {
	cap := int64(2048)
	for cap < need {
		cap *= 4
	}
	key := fmt.Sprintf("%v|%d|%s", opt, cap, text)
	if t, ok := p.twins[key]; ok {
		return t
	}
	t := &c09Twin{}
	ctx := verifsim.NewSimContext(-1)
	ctx.HardCap = cap
	ctx.PanicAfter = 64 // (the twin only needs to be stopped, by whatever means)
	ctx.InstrWorkCap = c09InstrCap
	h := newHost(ctx)
	h.TotalBudget = int(cap)
	e := evalfilter.New(text)
	h.install(e)
	e.SetContext(ctx)
	if err, esc := doPrepare(e, opt); err != nil || esc != nil {
		t.prepErr = fmt.Sprint(err, esc)
		p.twins[key] = t
		return t
	}
	under(ctx, func() { t.res = doExecute(e, nil) })
	t.trace = h.Trace
	t.vars = showVars(e, names)
	t.ticks = ctx.Clock
	if ctx.HitCap || h.Runaway || ctx.RunawayWork {
		t.ticks = -1
	}
	if len(p.twins) > 20000 {
		p.twins = map[string]*c09Twin{}
	}
	p.twins[key] = t
	return t
}

func (p *c09) Run(c *verifsim.Chooser, st *Stats, render bool) *Outcome {
	o := &Outcome{}
	// modes: 0 catalogue shape, 1 generated script, 2 real timer (explicit
	// traces of the thorough tier only; one random draw in 64 otherwise)
	mode := c.Intn(64)
	if mode == 3 || mode == 62 {
		return p.heavy(c, st, render)
	}
	if mode == 4 || mode == 61 {
		return p.driverTimeout(c, st, render)
	}
	if mode == 2 || mode == 63 {
		if p.tier == "thorough" {
			return p.realTimer(c, st, render)
		}
		mode = 0
	}
	mode %= 2
	var text, family string
	names := c09Vars
	rec := false
	if mode == 0 {
		s := p.shapes[c.Intn(len(p.shapes))]
		text, family, rec = s.Text, s.Family, s.Rec
	} else {
		sc := GenScript(c, GenCfg{Funcs: true, Faults: true, Hashes: true})
		names = append(append([]string{}, sc.Globals...), "m")
		switch c.Intn(4) {
		case 0:
			text = sc.Text
			family = "random/plain"
		case 1:
			text = "function body() {\n" + stripFuncs(sc.Text) + "return 1;\n}\n" + onlyFuncs(sc.Text) + "while (true) { m = body(); tick(); }\n"
			family = "random/loop-calls-body"
		case 2:
			text = onlyFuncs(sc.Text) + "while (true) {\n" + stripReturns(stripFuncs(sc.Text)) + "tick();\n}\n"
			family = "random/in-loop"
		default:
			text = onlyFuncs(sc.Text) + "foreach m in 1..300 {\n" + stripReturns(stripFuncs(sc.Text)) + "tick();\n}\nreturn 5;\n"
			family = "random/in-foreach"
		}
	}
	setDesc(family)
	opt := c.Intn(2) == 0
	useRun := c.Intn(2) == 1
	// what the context says about its deadline: 0 nothing, 1 an hour away,
	// 2 always half a millisecond away (a real deadline the script will beat)
	dlKind := c.Intn(3)
	farDeadline := dlKind == 1
	// the context may also reach the evaluator the other documented way:
	// Prepare, SetContext, Prepare again
	prepTwice := mode == 1 && c.Intn(3) == 1
	plan := c.Intn(6)
	var k int64 = -1
	hostCall := 0
	var slow int64
	var atWork int64
	switch plan {
	case 5:
		// an instant on the work clock: between two instructions' ticks
		atWork = int64(1 + c.Intn(4000))
	case 1:
		lim := 6000
		if rec {
			lim = 2000
		}
		k = int64(c.Intn(lim))
	case 2:
		k = 0
	case 3:
		hostCall = 1 + c.Intn(40)
	case 4:
		k = int64(c.Intn(3000))
		slow = int64(c.Intn(50))
	}
	o.Digest.Str(text)
	o.Digest.U64(uint64(plan)<<32 | uint64(k+1))
	o.Digest.U64(uint64(atWork))

	need := k + 600
	if plan == 3 || plan == 5 {
		need = 3000
	}
	tw := p.twin(text, opt, names, need)
	if tw.prepErr != "" {
		// generated text that does not compile is not a C09 case
		st.probe("prepare-failed")
		return o
	}

	ctx := verifsim.NewSimContext(k)
	ctx.FarDeadline = farDeadline
	ctx.NearDeadline = dlKind == 2
	ctx.HardCap = need + c09B + 1000
	ctx.PanicAfter = c09B
	ctx.CancelAtWork = atWork
	if plan != 0 {
		// a planned cancellation also lands inside an instruction that turns
		// out to be long (whichever comes first), and must stop it too
		ctx.HeavyFireAt = 20000
		ctx.WorkCapAfter = c09BWork
	} else {
		ctx.InstrWorkCap = c09InstrCap
	}
	h := newHost(ctx)
	h.RunawayBudget = c09B
	h.TotalBudget = int(need) + c09B + 1000
	h.CancelAtCall = hostCall
	h.SlowTicks = slow
	e := evalfilter.New(text)
	h.install(e)
	if prepTwice {
		old := verifsim.NewSimContext(-1)
		e.SetContext(old)
		if err, esc := doPrepare(e, opt); err != nil || esc != nil {
			return o
		}
		family += "+second-prepare"
	}
	e.SetContext(ctx)
	if err, esc := doPrepare(e, opt); err != nil || esc != nil {
		o.violate("C09/disturbed", family, "Prepare failed only with a simulated context: %v %v", err, esc)
		return o
	}
	if mode == 1 && !prepTwice && c.Intn(4) == 1 {
		// the host hands over another (never cancelled) context afterwards
		// without preparing again: the one given before Prepare still rules
		e.SetContext(verifsim.NewSimContext(-1))
		family += "+late-setcontext"
	}
	var r Result
	under(ctx, func() {
		if useRun {
			r = doRun(e, nil)
		} else {
			r = doExecute(e, nil)
		}
	})
	o.Ticks = ctx.Clock
	vars := showVars(e, names)
	fired := ctx.Fired() && !ctx.HitCap
	o.Digest.Str(r.String())
	o.Digest.U64(uint64(ctx.Ticks))
	o.Digest.Str(joinTrace(h.Trace))

	if render {
		o.Sample = map[string]interface{}{
			"script": text, "family": family, "optimizer": opt, "front_end": map[bool]string{true: "Run", false: "Execute"}[useRun],
			"plan":   []string{"never", "cancel-at-clock", "already-expired", "cancel-inside-host-call", "deadline+slow-host", "cancel-at-work-unit"}[plan],
			"k":      k, "work_unit": atWork, "host_call": hostCall, "slow_ticks": slow, "context_deadline": []string{"none", "one hour away", "always 500us away"}[dlKind],
			"result": r.String(), "ticks": ctx.Ticks, "context_polls": ctx.Polls, "ticks_after_cancel": ctx.TicksAfter, "host_calls": h.Calls,
			"twin_result": tw.res.String(), "twin_ticks": tw.ticks,
		}
	}

	if r.Escaped != nil {
		o.violate("C09/escaped-panic", family, "panic crossed %s: %s", r.Escaped.Entry, r.Escaped.Value)
		return o
	}
	if fired {
		o.Nontrivial = true
		st.fault([]string{"", "cancel-at-clock", "already-expired", "cancel-inside-host-call", "deadline+slow-host", "cancel-at-work-unit"}[plan])
		if h.CancelledInHost {
			st.probe("cancel-landed-inside-host-call")
		}
		if e.VerifScopes() > 0 {
			st.probe("cancel-landed-inside-scope(function/foreach)")
		}
	}
	if plan == 5 && !ctx.FiredInWork && !ctx.Runaway && !ctx.RunawayWork {
		// the run had fewer work units than the instant: no cancellation
		plan = 0
	}
	if plan == 3 && !h.CancelledInHost && !ctx.Runaway {
		// the host call in which the cancellation was planned never
		// happened: this is a run without cancellation
		plan = 0
	}
	if ctx.RunawayWork && ctx.Fired() && plan != 0 {
		o.violate("C09/not-stopped-inside-instruction", runawayWalk(ctx.RunawayStack), "(%s) the context was cancelled (plan=%d k=%d, inside the instruction: %v); %d work units later one instruction was still running (interrupted by the simulator)", family, plan, k, ctx.FiredInWork, ctx.WorkAfter)
		return o
	}
	if h.Runaway || ctx.HitCap || ctx.Runaway || ctx.RunawayWork {
		switch {
		case plan != 0:
			o.violate("C09/not-stopped", family, "cancellation planned (plan=%d k=%d call=%d); fired=%v; the script kept running: %d ticks and %d host calls after the instant", plan, k, hostCall, ctx.Fired(), ctx.TicksAfter, h.CallsAfterCancel)
		case tw.ticks >= 0:
			o.violate("C09/disturbed", family, "run without cancellation did not end although its twin did")
		}
		return o
	}
	if (!fired || !r.Failed) && tw.ticks < 0 {
		// the run ended by itself later than the twin was allowed to run
		// (also when the cancellation was noticed so late - within the bound -
		// that the script had reached its natural end before)
		tw = p.twin(text, opt, names, ctx.Clock+600)
	}
	same := sameOutcome(r, tw, useRun, h.Trace, vars)
	if !fired {
		// O3: a script that finishes before the instant is unaffected
		if !same {
			o.violate("C09/disturbed", family, "never cancelled, but differs from the twin: got %s trace=%d vars=%v; twin %s trace=%d vars=%v", r.String(), len(h.Trace), vars, tw.res.String(), len(tw.trace), tw.vars)
		}
		return o
	}
	st.max("ticks_after_cancel", ctx.TicksAfter)
	st.max("host_calls_after_cancel", int64(h.CallsAfterCancel))
	if ctx.TicksAfter > c09B {
		o.violate("C09/late", family, "%d ticks after the cancellation instant", ctx.TicksAfter)
	}
	if same {
		// the cancellation came when the script was already done
		st.probe("cancelled-after-natural-end")
		return o
	}
	// O1/O4: cut short => an error is reported through either front end
	if !r.Failed {
		o.violate("C09/not-reported", family, "cancelled at tick %d, outcome differs from the uncancelled twin (%s), but %s returned no error: %s", ctx.FiredAt, tw.res.String(), map[bool]string{true: "Run", false: "Execute"}[useRun], r.String())
	}
	if useRun && r.Truth {
		o.violate("C09/not-reported", family, "Run returned true together with an error")
	}
	// O2: an already-expired context prevents execution altogether
	if plan == 2 {
		// … and keeps doing so: a second call on the same evaluator
		nTrace := len(h.Trace)
		var r2 Result
		under(ctx, func() {
			// same front end again first (a lock taken and not given back
			// by the refusal would block here), then the other one
			if useRun {
				r2 = doRun(e, nil)
			}
			if !useRun || r2.Failed {
				if useRun {
					r2 = doExecute(e, nil)
				} else {
					r2 = doRun(e, nil)
				}
			}
		})
		if !r2.Failed && r2.Escaped == nil && tw.ticks != 0 {
			o.violate("C09/ran-when-expired", family+"/second-call", "the first call under an expired context was refused, a second call on the same evaluator (other front end) returned %s", r2.String())
		} else if len(h.Trace) != nTrace {
			o.violate("C09/ran-when-expired", family+"/second-call", "a second call under the still-expired context called host functions: %v", h.Trace[nTrace:])
		}
		if len(h.Trace) != 0 {
			o.violate("C09/ran-when-expired", family+"/trace", "host functions were called under an expired context: %v", h.Trace)
		}
		for i, v := range vars {
			if v != "NULL:null" {
				o.violate("C09/ran-when-expired", family+"/globals", "variable %s = %s under an expired context", names[i], v)
				break
			}
		}
	}
	// the part that did run is a prefix of what the twin did
	lim := len(tw.trace)
	if len(h.Trace) > lim+c09B && tw.ticks >= 0 {
		o.violate("C09/not-stopped", family, "more host calls than the uncancelled twin")
	}
	for i := 0; i < len(h.Trace) && i < lim; i++ {
		if h.Trace[i] != tw.trace[i] {
			o.violate("C09/disturbed", family, "host call %d differs from the twin before the cancellation: %s vs %s", i, h.Trace[i], tw.trace[i])
			break
		}
	}
	return o
}

func sameOutcome(r Result, tw *c09Twin, useRun bool, trace []string, vars []string) bool {
	if tw.ticks < 0 {
		return false
	}
	if r.Failed != tw.res.Failed {
		return false
	}
	if r.Failed {
		if r.Err != tw.res.Err {
			return false
		}
	} else if useRun {
		if r.Truth != tw.res.Truth {
			return false
		}
	} else if r.Out != tw.res.Out {
		return false
	}
	if joinTrace(trace) != joinTrace(tw.trace) {
		return false
	}
	for i := range vars {
		if vars[i] != tw.vars[i] {
			return false
		}
	}
	return true
}

// The generator emits function definitions first; these helpers split them
// from the main body (definitions start with "function " at column 0 and end
// with a line "}" that closes depth 0).
func splitFuncs(text string) (funcs, body string) {
	lines := strings.Split(text, "\n")
	depth := 0
	in := false
	var fb, bb strings.Builder
	for _, l := range lines {
		if !in && strings.HasPrefix(l, "function ") {
			in = true
			depth = 0
		}
		if in {
			fb.WriteString(l + "\n")
			depth += strings.Count(l, "{") - strings.Count(l, "}")
			if depth == 0 {
				in = false
			}
			continue
		}
		if l != "" {
			bb.WriteString(l + "\n")
		}
	}
	return fb.String(), bb.String()
}

func onlyFuncs(text string) string  { f, _ := splitFuncs(text); return f }
func stripFuncs(text string) string { _, b := splitFuncs(text); return b }

func stripReturns(body string) string {
	var sb strings.Builder
	for _, l := range strings.Split(body, "\n") {
		if strings.HasPrefix(strings.TrimSpace(l), "return ") {
			sb.WriteString("m = 0;\n")
		} else if l != "" {
			sb.WriteString(l + "\n")
		}
	}
	return sb.String()
}

// runawayWalk names the walk that did not end: the library functions that
// occur at least three times among the innermost frames (a recursion), or
// else the innermost library function (a loop).
func runawayWalk(stack []string) string {
	const mod = "github.com/skx/evalfilter/v2"
	count := map[string]int{}
	first := ""
	for _, f := range stack {
		if !strings.HasPrefix(f, mod) || strings.Contains(f, "/verifsim.") {
			continue
		}
		name := strings.TrimPrefix(f, mod)
		if i := strings.Index(name, ".func"); i > 0 {
			name = name[:i] // (closures count as their function)
		}
		if first == "" {
			first = name
		}
		if name == "/vm.(*VM).Run" || name == "/vm.(*VM).run" {
			continue // (the interpreter's own frames, one pair per call depth of the script)
		}
		count[name]++
	}
	var rec []string
	for n, k := range count {
		if k >= 3 {
			rec = append(rec, n)
		}
	}
	if len(rec) == 0 {
		return "in " + first
	}
	sortStrings(rec)
	return "walk " + strings.Join(rec, " + ")
}

func toInt(v interface{}) int64 {
	if f, ok := v.(float64); ok {
		return int64(f)
	}
	return 0
}
