package main

import (
	"fmt"
	"strings"

	"github.com/skx/evalfilter/v2/object"
	"github.com/skx/evalfilter/v2/verifsim"
)

// "NoOptimize disables optimisation and nothing else", decided without a
// model: the same script is prepared with and without the optimizer, both
// evaluators are driven through the same history of runs (objects, host
// answers, host faults), and everything a caller can see must agree - result
// type and printed form, failure, host-function calls, variables afterwards.
// Instruction counts may differ (that is what the optimizer is for), so
// cancellation by clock is not part of these histories.
//
// The scripts come from three sources: a generator of expressions over
// literals (what the optimizer rewrites: arithmetic, comparisons, conditions
// made of constants, in every position where control flow joins), the general
// script generator, and the pool of every property's corpus.

type optGen struct {
	c *verifsim.Chooser
	n int
}

var optInts = []string{"0", "1", "2", "3", "4", "9", "16", "7", "100", "255", "256", "65534", "65535", "65536", "70000"}

func (g *optGen) atom() string {
	switch g.c.Intn(12) {
	case 0:
		return "true"
	case 1:
		return "false"
	case 2:
		return []string{"1.5", "0.0", "2.0", "9.0"}[g.c.Intn(4)]
	case 3:
		return []string{`"a"`, `""`, `"3"`, `"steve"`}[g.c.Intn(4)]
	case 4:
		return []string{"x", "y", "F", "undefinedname"}[g.c.Intn(4)]
	case 5:
		return "hv(" + optInts[g.c.Intn(6)] + ")"
	}
	return optInts[g.c.Intn(len(optInts))]
}

func (g *optGen) intAtom() string { return optInts[g.c.Intn(len(optInts))] }

var optBin = []string{"+", "-", "*", "/", "%", "**", "==", "!=", "<", "<=", ">", ">=", "&&", "||", "+", "-", "*", "/", "==", "!="}

func (g *optGen) expr(d int) string {
	g.n++
	if d <= 0 || g.n > 40 {
		if g.c.Intn(3) > 0 {
			return g.intAtom()
		}
		return g.atom()
	}
	switch g.c.Intn(14) {
	case 0, 1, 2, 3, 4:
		return g.expr(d-1) + " " + optBin[g.c.Intn(len(optBin))] + " " + g.expr(d-1)
	case 5:
		return "(" + g.expr(d-1) + " " + optBin[g.c.Intn(len(optBin))] + " " + g.expr(d-1) + ")"
	case 6:
		// a ternary: control flow joins in the middle of an expression
		return "(" + g.cond(d-1) + " ? " + g.noTernary(d-1) + " : " + g.noTernary(d-1) + ")"
	case 7:
		return "√" + g.expr(d-1)
	case 8:
		return "!" + g.expr(d-1)
	case 9:
		return "-" + g.expr(d-1)
	case 10:
		return "[" + g.expr(d-1) + ", " + g.expr(d-1) + "][" + []string{"0", "1", "2"}[g.c.Intn(3)] + "]"
	case 11:
		return []string{"len", "string", "int", "type", "float"}[g.c.Intn(5)] + "(" + g.expr(d-1) + ")"
	case 12:
		return g.atom()
	}
	return g.intAtom()
}

// (the parser refuses a ternary inside a ternary)
func (g *optGen) noTernary(d int) string {
	g.n++
	switch g.c.Intn(6) {
	case 0:
		return g.intAtom() + " " + optBin[g.c.Intn(len(optBin))] + " " + g.intAtom()
	case 1:
		return g.atom()
	case 2:
		return []string{"true", "false"}[g.c.Intn(2)]
	}
	return g.intAtom()
}

func (g *optGen) cond(d int) string {
	switch g.c.Intn(8) {
	case 0:
		return "x"
	case 1:
		return "F > " + g.intAtom()
	case 2:
		return "true"
	case 3:
		return "false"
	case 4:
		return g.intAtom() + " " + []string{"==", "!=", "<", ">"}[g.c.Intn(4)] + " " + g.intAtom()
	case 5:
		return "hv(" + []string{"0", "1"}[g.c.Intn(2)] + ") == 1"
	}
	return g.noTernary(d)
}

// statement wraps an expression into every position an expression can take.
func (g *optGen) statement(d int) string {
	e := func() string { return g.expr(d) }
	switch g.c.Intn(16) {
	case 0, 1, 2:
		return "return " + e() + ";\n"
	case 3:
		return "if (" + e() + ") { return " + e() + "; }\n"
	case 4:
		return "if (" + e() + ") { r = " + e() + "; } else { r = " + e() + "; }\n"
	case 5:
		return "r = " + e() + ";\n"
	case 6:
		return "i = 0; while (i < " + g.intAtom() + " % 7) { i++; r = r + " + g.noTernary(1) + "; }\n"
	case 7:
		return "switch (" + e() + ") { case " + g.intAtom() + " { r = " + e() + "; } case " + g.noTernary(1) + " { r = 2; } default { r = " + e() + "; } }\n"
	case 8:
		return "for (j = 0; j < " + g.noTernary(1) + "; j++) { if (j > 4) { return " + e() + "; } r = j; }\n"
	case 9:
		return "foreach v in [" + e() + ", " + e() + "] { r = v; if (" + g.cond(1) + ") { return v; } }\n"
	case 10:
		if g.c.Bool() {
			// control flow that joins inside a function body, then constants
			return "function f" + fmt.Sprint(g.c.Intn(2)) + "(a) { t = (" + g.cond(1) + " ? " + g.noTernary(1) + " : " + g.noTernary(1) + ") " + optBin[g.c.Intn(len(optBin))] + " " + g.intAtom() + "; if (a ? false : true) { return " + g.intAtom() + " + " + g.intAtom() + "; } return t + " + e() + "; }\n"
		}
		return "function f" + fmt.Sprint(g.c.Intn(2)) + "(a) { if (" + g.cond(1) + ") { return " + e() + "; } return a + " + g.noTernary(1) + "; }\n"
	case 11:
		return "r = f" + fmt.Sprint(g.c.Intn(2)) + "(" + e() + ");\n"
	case 12:
		return "emit(" + e() + ");\n"
	case 13:
		return "r = (" + g.cond(1) + " ? " + g.noTernary(1) + " : " + g.noTernary(1) + ") " + optBin[g.c.Intn(len(optBin))] + " " + g.intAtom() + ";\n"
	case 14:
		return "if (" + g.cond(1) + " ? " + []string{"true", "false"}[g.c.Intn(2)] + " : " + []string{"true", "false"}[g.c.Intn(2)] + ") { return " + g.intAtom() + "; }\n"
	}
	return "r = r + " + e() + ";\n"
}

// statement10 defines both functions with control flow that joins inside them.
func (g *optGen) statement10() string {
	var b strings.Builder
	for f := 0; f < 2; f++ {
		fmt.Fprintf(&b, "function f%d(a) { t = (a ? %s : %s) %s %s; if (a ? false : true) { return %s + %s; } return t + %s; }\n", f,
			g.noTernary(1), g.noTernary(1), optBin[g.c.Intn(len(optBin))], g.intAtom(), g.intAtom(), g.intAtom(), g.noTernary(1))
	}
	return b.String()
}

func (g *optGen) script() string {
	var b strings.Builder
	if g.c.Intn(8) == 1 {
		// nothing for the optimizer at top level, everything inside functions
		g.n = 0
		return g.statement10() + "return f0(x) == f1(F);\n"
	}
	b.WriteString("r = 0;\n")
	for n := 1 + g.c.Intn(5); n > 0; n-- {
		g.n = 0
		b.WriteString(g.statement(1 + g.c.Intn(3)))
	}
	b.WriteString("return r;\n")
	return b.String()
}

// Tagged call sites.  "A function given with AddFunction is called once per
// call with the script's arguments in order": in a script without loops and
// without user-defined functions every call site runs at most once, so when
// every call of the host function h carries a literal of its own, no literal
// may show up twice in the record of host calls - whatever position the call
// is in (the subject of a switch, a case, the left side of `in`, a ternary,
// an index, a hash key, a compound assignment ...).
type tagGen struct {
	c    *verifsim.Chooser
	next int
	kind map[int]string // tag -> position of the call
}

func (g *tagGen) call(position string) string {
	g.next++
	t := 100 + g.next
	g.kind[t] = position
	return fmt.Sprintf("h(%d)", t)
}

func (g *tagGen) statement() string {
	c := g.c
	n := func() string { return fmt.Sprint(100 + c.Intn(12)) } // (may equal a tag's value: cases that match)
	switch c.Intn(18) {
	case 0:
		return "r = " + g.call("assignment") + ";\n"
	case 1:
		return "if (" + g.call("if-condition") + " > " + n() + ") { y = " + g.call("then-branch") + "; } else { y = " + g.call("else-branch") + "; }\n"
	case 2:
		return "switch (" + g.call("switch-subject") + ") { case " + n() + " { y = 1; } case " + n() + " { y = 2; } case " + n() + " { y = 3; } default { y = " + g.call("default-branch") + "; } }\n"
	case 3:
		return "switch (" + n() + ") { case " + g.call("case-expression") + " { y = 1; } case " + g.call("case-expression") + " { y = 2; } default { y = 0; } }\n"
	case 4:
		return "r = " + g.call("left-of-in-range") + " in (" + n() + ".." + fmt.Sprint(112+c.Intn(6)) + ");\n"
	case 5:
		return "r = " + g.call("left-of-in-array") + " in [" + n() + ", " + g.call("array-member") + ", " + n() + "];\n"
	case 6:
		return "r = " + g.call("ternary-condition") + " > " + n() + " ? " + g.call("ternary-arm") + " : " + g.call("ternary-arm") + ";\n"
	case 7:
		return "r = [" + g.call("array-member") + ", " + g.call("array-member") + "][" + g.call("index") + " % 2];\n"
	case 8:
		return "r = {" + g.call("hash-key") + ": " + g.call("hash-value") + ", \"k\": " + g.call("hash-value") + "};\n"
	case 9:
		return "r = " + g.call("left-of-&&") + " > " + n() + " && " + g.call("right-of-&&") + " > " + n() + ";\n"
	case 10:
		return "r = " + g.call("left-of-||") + " > " + n() + " || " + g.call("right-of-||") + " > " + n() + ";\n"
	case 11:
		return "r = " + g.call("operand") + " + " + g.call("operand") + " * " + g.call("operand") + " - " + g.call("operand") + ";\n"
	case 12:
		return "r = len(string(" + g.call("built-in-argument") + ")) + " + []string{"int", "float", "len"}[c.Intn(3)] + "(" + g.call("built-in-argument") + ");\n"
	case 13:
		return "r = 1; r " + []string{"+=", "-=", "*=", "/="}[c.Intn(4)] + " " + g.call("compound-assignment") + ";\n"
	case 14:
		return "r = " + []string{"-", "!", "√"}[c.Intn(3)] + g.call("prefix-operand") + ";\n"
	case 15:
		return "r = " + g.call("left-of-comparison") + " " + []string{"==", "!=", "<", "<=", ">", ">="}[c.Intn(6)] + " " + g.call("right-of-comparison") + ";\n"
	case 16:
		return "r = h(" + g.call("host-argument") + " + " + g.call("host-argument") + ");\n"
	}
	return "r = " + g.call("range-bound") + ".." + fmt.Sprint(120+c.Intn(3)) + ";\n"
}

func (g *tagGen) script() string {
	var b strings.Builder
	b.WriteString("r = 0; y = 0;\n")
	for n := 1 + g.c.Intn(4); n > 0; n-- {
		b.WriteString(g.statement())
	}
	if g.c.Bool() {
		b.WriteString("return " + g.call("return") + ";\n")
	} else {
		b.WriteString("return r;\n")
	}
	return b.String()
}

// repeatedSite returns the first tagged call that occurs twice in a record
// of host calls.
func repeatedSite(trace []string, kind map[int]string) (string, int) {
	seen := map[int]int{}
	for _, t := range trace {
		var tag int
		if _, err := fmt.Sscanf(t, "h(INTEGER:%d)", &tag); err == nil && kind[tag] != "" {
			seen[tag]++
			if seen[tag] == 2 {
				n := 0
				for _, u := range trace {
					if u == t {
						n++
					}
				}
				return kind[tag], n
			}
		}
	}
	return "", 0
}

func (p *c20) runOptDiff(c *verifsim.Chooser, st *Stats, render bool) *Outcome {
	o := &Outcome{}
	var text string
	var globals, scoped []string
	src := c.Intn(11)
	var tags map[int]string
	switch {
	case src >= 8:
		tg := &tagGen{c: c, kind: map[int]string{}}
		text = tg.script()
		tags = tg.kind
		globals, scoped = []string{"r", "y"}, nil
		setDesc("optimizer differential: tagged call sites")
	case src <= 4:
		text = (&optGen{c: c}).script()
		globals, scoped = analyseNames(text)
		setDesc("optimizer differential: constant expressions")
	case src <= 6:
		_ = tags
		sc := GenScript(c, GenCfg{Funcs: true, Faults: c.Bool(), Hashes: true})
		text, globals, scoped = sc.Text, sc.Globals, sc.Scoped
		setDesc("optimizer differential: generated script")
	default:
		pool := scriptPool()
		text = pool[c.Intn(len(pool))]
		globals, scoped = analyseNames(text)
		setDesc("optimizer differential: pool script")
	}
	o.Digest.Str(text)
	st.probe(fmt.Sprintf("optdiff-source-%d", map[bool]int{true: 0, false: 1}[src <= 4]+map[bool]int{true: 1, false: 0}[src > 6]))

	// the history is drawn first and then played, so that it can be played
	// again against a variant of the script when a difference has to be
	// attributed
	var setX object.Object
	if c.Bool() {
		setX = []object.Object{&object.Boolean{Value: true}, &object.Boolean{Value: false}, &object.Integer{Value: 3}, &object.String{Value: ""}}[c.Intn(4)]
	}
	var plan []*c07Run
	for i, n := 0, 1+c.Intn(3); i < n; i++ {
		r := &c07Run{}
		switch c.Intn(4) {
		case 0:
			r.Obj, r.ObjDesc = nil, "nil"
		case 1:
			r.Obj, r.ObjDesc = map[string]interface{}{"F": 5, "y": true}, "map{F:5 y:true}"
		case 2:
			r.Obj, r.ObjDesc = objectPool(c)
		default:
			r.Obj, r.ObjDesc = genObject(c)
		}
		bits := c.Intn(16)
		r.Maybe = []bool{bits&1 != 0, bits&2 != 0, bits&4 != 0, bits&8 != 0}
		if c.Intn(6) == 1 {
			r.Fault, r.K = "host-panic-any", c.Intn(4)
			st.fault("host-panic")
		}
		r.UseRun = c.Intn(5) == 1
		plan = append(plan, r)
	}
	all := append(append([]string{"r", "x", "i", "j"}, globals...), scoped...)
	res := optDiffPlay(text, setX, plan, all, render)
	if tags != nil {
		for _, tr := range res.traces {
			if pos, n := repeatedSite(tr, tags); pos != "" {
				o.violate("C20/api-model", "call in "+pos+" made more than once", "the host function in the %s of a script without loops or functions was called %d times for one call in the script; host calls: [%s]\nscript:\n%s", pos, n, joinTrace(tr), text)
				return o
			}
		}
	}
	if render {
		o.Sample = map[string]interface{}{"mode": "optimizer differential", "script": text, "history": res.hist}
	}
	switch {
	case res.prepFailed:
		st.probe("prepare-failed")
	case res.capped:
		st.probe("optdiff-capped")
	}
	o.Nontrivial = res.ran > 0
	o.Ticks = res.ticks
	for _, d := range res.digest {
		o.Digest.Str(d)
	}
	if res.sig == "" {
		return o
	}
	if res.frontEnds {
		o.violate("C20/run-vs-execute", res.sig, "%s", res.detail)
		return o
	}
	if strings.Contains(text, "√") {
		// is the difference the known one - the optimizer folds the square
		// root of a constant perfect square into an INTEGER, the VM computes
		// a FLOAT?  Then it disappears when every operand of √ is made a
		// float (which the optimizer does not fold) and nothing else changes.
		variant := floatSqrtOperands(text)
		if variant != text {
			if v := optDiffPlay(variant, setX, plan, all, false); v.sig == "" && !v.prepFailed {
				st.probe("sqrt-fold-difference")
				o.violate("C20/no-optimize", "√ of a constant perfect square is INTEGER with the optimizer, FLOAT without", "%s\n(the difference disappears when the operands of √ are written as floats)", res.detail)
				return o
			}
		}
	}
	o.violate("C20/no-optimize", res.sig, "%s", res.detail)
	return o
}

type optDiffResult struct {
	traces      [][]string // host calls of the optimized evaluator, per run
	sig, detail string
	frontEnds   bool // the difference is between Run and Execute, not between optimizer settings
	prepFailed  bool
	capped      bool
	ran         int
	ticks       int64
	digest      []string
	hist        []string
}

// optDiffPlay prepares text with and without the optimizer and plays the
// history against both; sig is empty if no caller-visible difference showed.
func optDiffPlay(text string, setX object.Object, plan []*c07Run, names []string, render bool) (res optDiffResult) {
	// (a third evaluator, optimized, answers every run through the other
	// front end: Run where the two use Execute and the other way round)
	sides := [3]*evalSide{}
	var perr [3]error
	for i, opt := range []bool{true, false, true} {
		s, err, esc := newSide(text, opt)
		if esc != nil {
			// (C08's business; both settings must agree all the same)
			err = fmt.Errorf("panic: %v", esc.Value)
		}
		sides[i], perr[i] = s, err
	}
	if perr[0] == nil && perr[2] != nil {
		res.sig = "Prepare"
		res.detail = fmt.Sprintf("a second evaluator for the same text failed to prepare: %v", perr[2])
		return
	}
	if (perr[0] != nil) != (perr[1] != nil) {
		res.sig = "Prepare"
		res.detail = fmt.Sprintf("Prepare gives %v with the optimizer and %v without\nscript:\n%s", perr[0], perr[1], text)
		return
	}
	if perr[0] != nil {
		res.prepFailed = true
		return
	}
	if setX != nil {
		for _, s := range sides {
			s.e.SetVariable("x", setX)
		}
		if render {
			res.hist = append(res.hist, "SetVariable(x, "+show(setX)+")")
		}
	}
	for i, r := range plan {
		var rs [3]Result
		for j, s := range sides {
			s.arm(r)
			if j == 2 {
				other := *r
				other.UseRun = !r.UseRun
				rs[j] = s.exec(&other)
			} else {
				rs[j] = s.exec(r)
			}
			if s.ctx.HitCap || s.h.Runaway {
				res.capped = true
			}
		}
		if render {
			res.hist = append(res.hist, fmt.Sprintf("run %d obj=%s fault=%s/%d: optimized %s | NoOptimize %s", i, r.ObjDesc, r.Fault, r.K, rs[0].String(), rs[1].String()))
		}
		if res.capped {
			return
		}
		res.ran++
		res.traces = append(res.traces, append([]string{}, sides[0].h.Trace...))
		res.ticks += sides[0].ctx.Ticks + sides[1].ctx.Ticks
		a, b := rs[0], rs[1]
		what := "Execute"
		if r.UseRun {
			what = "Run"
		}
		diff := func(sig, f string, args ...interface{}) {
			res.sig = sig
			res.detail = fmt.Sprintf(f, args...) + "\nscript:\n" + text
		}
		switch {
		case (a.Escaped != nil) != (b.Escaped != nil):
			diff("panic", "%s: optimized %s, NoOptimize %s", what, a.String(), b.String())
		case a.Failed != b.Failed:
			diff("fails="+fmt.Sprint(a.Failed)+"/"+fmt.Sprint(b.Failed), "%s on %s: optimized %s, NoOptimize %s", what, r.ObjDesc, a.String(), b.String())
		case !a.Failed && a.Out != b.Out:
			diff("result "+kindOf(a.Out)+"/"+kindOf(b.Out), "%s on %s: optimized %s, NoOptimize %s", what, r.ObjDesc, a.String(), b.String())
		case !a.Failed && a.Truth != b.Truth:
			diff("truth", "%s on %s: optimized %s, NoOptimize %s", what, r.ObjDesc, a.String(), b.String())
		case joinTrace(sides[0].h.Trace) != joinTrace(sides[1].h.Trace):
			diff("host calls", "%s on %s: optimized [%s], NoOptimize [%s]", what, r.ObjDesc, joinTrace(sides[0].h.Trace), joinTrace(sides[1].h.Trace))
		}
		if res.sig != "" {
			return
		}
		// Run against Execute (same program, same object, same host answers)
		if o := rs[2]; true {
			otherWhat := "Run"
			if r.UseRun {
				otherWhat = "Execute"
			}
			switch {
			case (a.Escaped != nil) != (o.Escaped != nil):
				res.sig, res.detail = "front ends: panic", fmt.Sprintf("on %s %s gives %s and %s gives %s\nscript:\n%s", r.ObjDesc, what, a.String(), otherWhat, o.String(), text)
			case a.Failed != o.Failed:
				res.sig, res.detail = "front ends: fails="+fmt.Sprint(a.Failed)+"/"+fmt.Sprint(o.Failed), fmt.Sprintf("on %s %s gives %s and %s gives %s\nscript:\n%s", r.ObjDesc, what, a.String(), otherWhat, o.String(), text)
			case !a.Failed && a.Truth != o.Truth:
				res.sig, res.detail = "front ends: truth", fmt.Sprintf("on %s %s gives %s and %s gives %s\nscript:\n%s", r.ObjDesc, what, a.String(), otherWhat, o.String(), text)
			case joinTrace(sides[0].h.Trace) != joinTrace(sides[2].h.Trace):
				res.sig, res.detail = "front ends: host calls", fmt.Sprintf("on %s %s calls [%s] and %s calls [%s]\nscript:\n%s", r.ObjDesc, what, joinTrace(sides[0].h.Trace), otherWhat, joinTrace(sides[2].h.Trace), text)
			}
			if res.sig != "" {
				res.frontEnds = true
				return
			}
		}
		for _, n := range names {
			if vc := show(sides[2].e.GetVariable(n)); vc != show(sides[0].e.GetVariable(n)) {
				res.sig, res.frontEnds = "front ends: variable after run", true
				res.detail = fmt.Sprintf("after the run on %s variable %s is %s via one front end and %s via the other\nscript:\n%s", r.ObjDesc, n, show(sides[0].e.GetVariable(n)), vc, text)
				return
			}
			va, vb := show(sides[0].e.GetVariable(n)), show(sides[1].e.GetVariable(n))
			if va != vb {
				diff("variable after run", "after %s on %s variable %s is %s with the optimizer and %s without", what, r.ObjDesc, n, va, vb)
				return
			}
		}
		res.digest = append(res.digest, a.String())
	}
	return
}

// floatSqrtOperands rewrites every "√123" into "√(0.0+123)" and every "√(" into
// "√(0.0+" - same value, but the operand is no longer an integer constant.
func floatSqrtOperands(text string) string {
	rs := []rune(text)
	var b strings.Builder
	for i := 0; i < len(rs); i++ {
		b.WriteRune(rs[i])
		if rs[i] != '√' {
			continue
		}
		j := i + 1
		for j < len(rs) && rs[j] == ' ' {
			j++
		}
		switch {
		case j < len(rs) && rs[j] == '(':
			b.WriteString("(0.0+")
			i = j
		case j < len(rs) && rs[j] >= '0' && rs[j] <= '9':
			k := j
			for k < len(rs) && (rs[k] >= '0' && rs[k] <= '9' || rs[k] == '.') {
				k++
			}
			b.WriteString("(0.0+" + string(rs[j:k]) + ")")
			i = k - 1
		}
	}
	return b.String()
}

// kindOf is the type part of a "TYPE:printed" result.
func kindOf(out string) string {
	if i := strings.IndexByte(out, ':'); i > 0 {
		return out[:i]
	}
	return out
}
