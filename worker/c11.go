package main

import (
	"bytes"
	"encoding/json"
	"fmt"
	"os"
	"regexp"
	"sort"
	"strings"
	"time"

	"github.com/anishathalye/porcupine"
	evalfilter "github.com/skx/evalfilter/v2"
	"github.com/skx/evalfilter/v2/object"
	"github.com/skx/evalfilter/v2/verifsim"
)

// C11 — evaluators can be used from many goroutines (DESIGN 3/C11).
//
// One simulated run: a few evaluators, a few tasks (= caller goroutines),
// a few operations per task, executed under the seeded scheduler of verifsim.
// Oracles: the Go race detector (race build; reports are read from GORACE's
// log_path after every run), linearizability of the recorded history against
// a sequential specification (porcupine), the mutual-exclusion monitor of the
// simulated context, and deadlock detection by the scheduler.

const c11StepCap = 30000

type c11 struct {
	raceLog    string
	raceOff    int64
	raceOn     bool
	seenRace   map[string]bool
	unknown    int
	nsched     map[uint64]struct{}
	harnessBug string
}

func newC11() Prop {
	p := &c11{seenRace: map[string]bool{}, nsched: map[uint64]struct{}{}}
	for _, kv := range strings.Fields(os.Getenv("GORACE")) {
		if strings.HasPrefix(kv, "log_path=") {
			p.raceLog = fmt.Sprintf("%s.%d", strings.TrimPrefix(kv, "log_path="), os.Getpid())
		}
	}
	p.raceOn = raceEnabled
	return p
}

func init() { propFactories["C11"] = newC11 }

func (p *c11) ID() string { return "C11" }

func (p *c11) Enumerate(tier string) [][]int32 { return nil }

func (p *c11) RandomRuns(tier string) int {
	if tier == "thorough" {
		return 600000
	}
	return 24000
}

func (p *c11) Extra() map[string]interface{} {
	return map[string]interface{}{
		"distinct_schedule_signatures_per_worker_sum": float64(len(p.nsched)),
		"porcupine_unknown":                           float64(p.unknown),
		"race_detector_active":                        p.raceOn,
	}
}

// ---- script families and their sequential specifications ----

type c11Family struct {
	name   string
	script func(tag string, par int) string
	init   func(e *evalfilter.Eval, par int)
	// step is the sequential specification: state, object -> state', verdict, emitted
	step   func(state int64, o *Obj, par int) (int64, bool, []int64)
	state0 func(par int) int64
	regexp bool
	// fails says for which objects the script ends with a run-time error
	fails func(o *Obj, par int) bool
}

func reMatchLines(re string, s string) bool {
	r := regexp.MustCompile(re)
	for _, l := range strings.Split(s, "\n") {
		if r.MatchString(strings.TrimSpace(l)) {
			return true
		}
	}
	return false
}

var c11Families = []c11Family{
	{
		name:   "counter",
		script: func(tag string, par int) string { return fmt.Sprintf("n++; emit(n); return n %% 2 == %d;", par%2) },
		init:   func(e *evalfilter.Eval, par int) { e.SetVariable("n", &object.Integer{Value: 0}) },
		step: func(s int64, o *Obj, par int) (int64, bool, []int64) {
			return s + 1, (s+1)%2 == int64(par%2), []int64{s + 1}
		},
		state0: func(par int) int64 { return 0 },
	},
	{
		name:   "decrementing-register",
		script: func(tag string, par int) string { return "n--; return n;" },
		init:   func(e *evalfilter.Eval, par int) { e.SetVariable("n", &object.Integer{Value: int64(2 + par%3)}) },
		step:   func(s int64, o *Obj, par int) (int64, bool, []int64) { return s - 1, s-1 > 0, nil },
		state0: func(par int) int64 { return int64(2 + par%3) },
	},
	{
		name: "accumulate-and-store",
		script: func(tag string, par int) string {
			return fmt.Sprintf("total = 0; foreach x in Items { total += x; } last = total; emit(last); return total > %d;", par%7)
		},
		init: func(e *evalfilter.Eval, par int) {},
		step: func(s int64, o *Obj, par int) (int64, bool, []int64) {
			var t int64
			for _, v := range o.Items {
				t += int64(v)
			}
			return t, t > int64(par%7), []int64{t}
		},
		state0: func(par int) int64 { return 0 },
	},
	{
		name:   "predicate-regexp",
		regexp: true,
		script: func(tag string, par int) string {
			return fmt.Sprintf("return A > %d && S ~= /^h%s/;", par%3, tag)
		},
		init: func(e *evalfilter.Eval, par int) {},
		step: func(s int64, o *Obj, par int) (int64, bool, []int64) {
			return s, o.A > par%3 && reMatchLines("^h", o.S), nil
		},
		state0: func(par int) int64 { return 0 },
	},
	{
		name:   "predicate-switch-regexp",
		regexp: true,
		script: func(tag string, par int) string {
			return fmt.Sprintf("switch (S) { case /ll%s/ { return true; } case \"ab\" { return A > %d; } default { return false; } }", tag, par%3)
		},
		init: func(e *evalfilter.Eval, par int) {},
		step: func(s int64, o *Obj, par int) (int64, bool, []int64) {
			if reMatchLines("ll", o.S) {
				return s, true, nil
			}
			if o.S == "ab" {
				return s, o.A > par%3, nil
			}
			return s, false, nil
		},
		state0: func(par int) int64 { return 0 },
	},
	{
		name:   "predicate-replace-function",
		regexp: true,
		script: func(tag string, par int) string {
			return fmt.Sprintf("function big(x) { return x > %d; } return big(len(replace(S, \"l+%s\", \"L\"))) || match(S, \"^a%s\") || B in Items;", par%4, tag, tag)
		},
		init: func(e *evalfilter.Eval, par int) {},
		step: func(s int64, o *Obj, par int) (int64, bool, []int64) {
			r := regexp.MustCompile("l+").ReplaceAllString(o.S, "L")
			in := false
			for _, v := range o.Items {
				if v == o.B {
					in = true
				}
			}
			return s, len([]rune(r)) > par%4 || reMatchLines("^a", o.S) || in, nil
		},
		state0: func(par int) int64 { return 0 },
	},
	{
		// patterns that come from data: over the life of a worker process far
		// more distinct ones than any bounded cache keeps (every case brings
		// forty new ones)
		name:   "bulk-regexp",
		regexp: true,
		script: func(tag string, par int) string {
			return fmt.Sprintf("n = 0; foreach i in 1..40 { if (match(S, \"^q%d-\" + string(i) + \"%s\")) { n = n + 1; } } return n > 0 || A > %d;", par, tag, par%3)
		},
		init: func(e *evalfilter.Eval, par int) {},
		step: func(s int64, o *Obj, par int) (int64, bool, []int64) {
			return s, o.A > par%3, nil
		},
		state0: func(par int) int64 { return 0 },
	},
	{
		// reads only: no assignment, no local, no ++/--, no function - the
		// kind of script an engine might be tempted to run without its lock
		name: "read-only-foreach",
		script: func(tag string, par int) string {
			return fmt.Sprintf("foreach x in Items { if (x == B) { return true; } } foreach ch in S { if (ch == \"z\") { return true; } } return A > %d;", 1+par%3)
		},
		init: func(e *evalfilter.Eval, par int) {},
		step: func(s int64, o *Obj, par int) (int64, bool, []int64) {
			for _, v := range o.Items {
				if v == o.B {
					return s, true, nil
				}
			}
			return s, strings.Contains(o.S, "z") || o.A > 1+par%3, nil
		},
		state0: func(par int) int64 { return 0 },
	},
	{
		name: "read-only-expression",
		script: func(tag string, par int) string {
			return fmt.Sprintf("return (A > %d && len(S) > 1) || B in Items || S == \"ab\";", par%3)
		},
		init: func(e *evalfilter.Eval, par int) {},
		step: func(s int64, o *Obj, par int) (int64, bool, []int64) {
			in := false
			for _, v := range o.Items {
				if v == o.B {
					in = true
				}
			}
			return s, (o.A > par%3 && len([]rune(o.S)) > 1) || in || o.S == "ab", nil
		},
		state0: func(par int) int64 { return 0 },
	},
	{
		// a pattern that does not compile (a user's typo): the failure path of
		// whatever the library shares between evaluators for regular expressions
		name:   "predicate-invalid-regexp",
		regexp: true,
		script: func(tag string, par int) string {
			return fmt.Sprintf("if (match(S, \"(h%s\") || match(S, \"(the-same-typo-everywhere\")) { return false; } return A > %d || match(S, \"^ab$\") || len(replace(S, \"[l%s\", \"x\")) > 9;", tag, par%3, tag)
		},
		init: func(e *evalfilter.Eval, par int) {},
		step: func(s int64, o *Obj, par int) (int64, bool, []int64) {
			return s, o.A > par%3 || reMatchLines("^ab$", o.S), nil
		},
		state0: func(par int) int64 { return 0 },
	},
	{
		// iterates over literals: the iteration position lives in the
		// (constant-pool) object, so sharing such objects between runs or
		// between evaluators corrupts the loop
		name: "foreach-over-literals",
		script: func(tag string, par int) string {
			return fmt.Sprintf("c = 0; foreach ch in \"abcdefgh\" { if (ch == \"c\" || ch == \"g\") { c = c + 1; } } foreach i, ch in \"xyz\" { c = c + i; } return c == 5 && A > %d;", par%3)
		},
		init: func(e *evalfilter.Eval, par int) {},
		step: func(s int64, o *Obj, par int) (int64, bool, []int64) {
			return s, o.A > par%3, nil
		},
		state0: func(par int) int64 { return 0 },
	},
	{
		name: "foreach-over-field-and-range",
		script: func(tag string, par int) string {
			return fmt.Sprintf("t = 0; foreach x in Items { foreach y in 1..3 { t = t + x * y; } } foreach k, v in {\"a\": 1, \"b\": 2} { t = t + v; } return t > %d;", 3+par%9)
		},
		init: func(e *evalfilter.Eval, par int) {},
		step: func(s int64, o *Obj, par int) (int64, bool, []int64) {
			var t int64
			for _, x := range o.Items {
				t += int64(x) * 6
			}
			return s, t+3 > int64(3+par%9), nil
		},
		state0: func(par int) int64 { return 0 },
	},
	{
		name: "fails-on-some-objects",
		script: func(tag string, par int) string {
			return fmt.Sprintf("k = k + 1; emit(k); q = 12 / A; return q > %d;", par%4)
		},
		init: func(e *evalfilter.Eval, par int) { e.SetVariable("k", &object.Integer{Value: 0}) },
		step: func(s int64, o *Obj, par int) (int64, bool, []int64) {
			if o.A == 0 {
				return s + 1, false, []int64{s + 1}
			}
			return s + 1, int64(12/o.A) > int64(par%4), []int64{s + 1}
		},
		state0: func(par int) int64 { return 0 },
		fails:  func(o *Obj, par int) bool { return o.A == 0 },
	},
	{
		name: "builtins-strings",
		script: func(tag string, par int) string {
			return fmt.Sprintf("p = split(S, \"l\"); u = upper(trim(\" \" + S + \" \")); j = join(sort(split(\"b,a,c\", \",\")), \"-\"); return len(p) + len(keys({\"x\": 1, \"y\": A})) + len(sprintf(\"%%d-%%s\", A, lower(u))) > %d && j == \"a-b-c\";", 4+par%6)
		},
		init: func(e *evalfilter.Eval, par int) {},
		step: func(s int64, o *Obj, par int) (int64, bool, []int64) {
			n := len(strings.Split(o.S, "l")) + 2 + len([]rune(fmt.Sprintf("%d-%s", o.A, strings.ToLower(strings.ToUpper(strings.TrimSpace(" "+o.S+" "))))))
			return s, n > 4+par%6, nil
		},
		state0: func(par int) int64 { return 0 },
	},
	{
		name: "builtins-misc",
		script: func(tag string, par int) string {
			return fmt.Sprintf("r = reverse(sort(Items)); k = keys({\"b\": B, \"a\": A, \"c\": C}); m = max(A, B) - min(A, B); s = string(m) + type(r) + string(len(k)) + string(between(B, 0, 2)); f = float(A) + int(\"%d\"); return len(s) + len(r) + m + int(f) > %d && lower(upper(S)) == lower(S);", par%5, 12+par%8)
		},
		init: func(e *evalfilter.Eval, par int) {},
		step: func(s int64, o *Obj, par int) (int64, bool, []int64) {
			mx, mn := o.A, o.B
			if o.B > mx {
				mx, mn = o.B, o.A
			}
			m := mx - mn
			str := fmt.Sprint(m) + "array" + "3" + fmt.Sprint(o.B >= 0 && o.B <= 2)
			f := o.A + par%5
			return s, len(str)+len(o.Items)+m+f > 12+par%8 && strings.ToLower(strings.ToUpper(o.S)) == strings.ToLower(o.S), nil
		},
		state0: func(par int) int64 { return 0 },
	},
	{
		name: "builtins-time",
		script: func(tag string, par int) string {
			return fmt.Sprintf("t = 1700000000 + A * 3600 + B * 86400; return hour(t) + day(t) + month(t) + minute(t) > %d || weekday(t) == \"Monday\" || year(t) < 2000;", 30+par%10)
		},
		init: func(e *evalfilter.Eval, par int) {},
		step: func(s int64, o *Obj, par int) (int64, bool, []int64) {
			ts := time.Unix(1700000000+int64(o.A)*3600+int64(o.B)*86400, 0).In(c11Zone)
			hr, mn, _ := ts.Clock()
			yr, mo, dy := ts.Date()
			return s, hr+dy+int(mo)+mn > 30+par%10 || ts.Weekday().String() == "Monday" || yr < 2000, nil
		},
		state0: func(par int) int64 { return 0 },
	},
	{
		name: "predicate-builtins",
		script: func(tag string, par int) string {
			return fmt.Sprintf("return upper(S) == \"AB\" || len(Items) > %d || (C > 0 && min(A, B) == B) || ((A > 1) == (B > 1) && (C > 0) != (A > 2) && (true in [B > 5, A > 0]));", par%4)
		},
		init: func(e *evalfilter.Eval, par int) {},
		step: func(s int64, o *Obj, par int) (int64, bool, []int64) {
			mn := o.A
			if o.B < mn {
				mn = o.B
			}
			return s, strings.ToUpper(o.S) == "AB" || len(o.Items) > par%4 || (o.C > 0 && mn == o.B) || ((o.A > 1) == (o.B > 1) && (o.C > 0) != (o.A > 2) && (o.B > 5 || o.A > 0)), nil
		},
		state0: func(par int) int64 { return 0 },
	},
}

// c11Zone is the zone the engine's time helpers use ($TZ, UTC if unset).
var c11Zone = func() *time.Location {
	env := os.Getenv("TZ")
	if env == "" {
		env = "UTC"
	}
	if loc, err := time.LoadLocation(env); err == nil {
		return loc
	}
	return time.Local
}()

// ---- recorded history ----

type c11Op struct {
	Task     int
	Eval     int
	Obj      Obj
	Call     int64
	Return   int64
	Verdict  bool
	Failed   bool
	Err      string
	Panicked bool
	Emitted  []int64
	IsRead   bool  // final GetVariable("last")/("n")
	ReadVal  int64 // value read
}

type c11Eval struct {
	fam    *c11Family
	par    int
	guard  bool // the script starts with a statement that fails for objects with C == -1
	e      *evalfilter.Eval
	ctx    *verifsim.SimContext
	shared bool
	tag    string
	text   string
	// emit buffers, one per task (written only by the task that runs)
	emit [8][]int64
}

var c11seq int64

//go:norace
func c11NextSeq() int64 { c11seq++; return c11seq }

//go:norace
func (ev *c11Eval) record(task int, v int64) {
	if task >= 0 && task < len(ev.emit) {
		ev.emit[task] = append(ev.emit[task], v)
	}
}

//go:norace
func (ev *c11Eval) take(task int) []int64 {
	out := ev.emit[task]
	ev.emit[task] = nil
	return out
}

func (ev *c11Eval) build() error {
	ev.text = ev.fam.script(ev.tag, ev.par)
	if ev.guard {
		ev.text = "zz = 1 / (C + 1); " + ev.text
	}
	ev.e = evalfilter.New(ev.text)
	ev.e.AddFunction("emit", func(args []object.Object) object.Object {
		verifsim.Yield(verifsim.YHost, 0)
		if len(args) == 1 {
			if i, ok := args[0].(*object.Integer); ok {
				ev.record(verifsim.CurrentTask(), i.Value)
			}
		}
		return &object.Void{}
	})
	ev.ctx = verifsim.NewSimContext(-1)
	ev.e.SetContext(ev.ctx)
	ev.fam.init(ev.e, ev.par)
	return ev.e.Prepare()
}

type c11Model struct {
	fam *c11Family
	par int
}

type c11In struct {
	obj    Obj
	isRead bool
}
type c11Out struct {
	verdict bool
	failed  bool
	emitted string
	readVal int64
}

// coldResult is what a cold-start child process prints.
type coldResult struct {
	Digest     uint64      `json:"digest"`
	Nontrivial bool        `json:"nontrivial"`
	Ticks      int64       `json:"ticks"`
	V          []Violation `json:"violations"`
	Trace      []int32     `json:"trace"`
	Sample     interface{} `json:"sample"`
}

// runCold executes this very case in a fresh process in which nothing of the
// library has run yet when the tasks start: lazily initialised package-level
// state is then first touched from several tasks.
func (p *c11) runCold(c *verifsim.Chooser, st *Stats, render bool, tz string) *Outcome {
	o := &Outcome{}
	args := []string{"-prop", "C11", "-cold-seed", fmt.Sprint(c.Seed0)}
	if c.IsReplay() {
		f, err := os.CreateTemp(os.Getenv("VERIF_TMP"), "cold-*.json")
		if err != nil {
			o.violate("C11/harness", "cold-start", "%v", err)
			return o
		}
		defer os.Remove(f.Name())
		b, _ := json.Marshal(c.ReplayValues())
		f.Write(b)
		f.Close()
		args = []string{"-prop", "C11", "-cold-trace", f.Name()}
	}
	cmd := childCommand(os.Args[0], args...)
	cmd.Env = append(os.Environ(), "VERIF_C11_CHILD=1")
	if tz != "" {
		cmd.Env = append(cmd.Env, "TZ="+tz)
		st.probe("cold-start-with-TZ-set")
	}
	var ob, eb bytes.Buffer
	cmd.Stdout, cmd.Stderr = &ob, &eb
	done := make(chan error, 1)
	if err := cmd.Start(); err != nil {
		o.violate("C11/harness", "cold-start", "%v", err)
		return o
	}
	go func() { done <- cmd.Wait() }()
	var err error
	select {
	case err = <-done:
	case <-time.After(25 * time.Second):
		cmd.Process.Kill()
		<-done
		o.violate("C11/hang", "cold start", "a run whose tasks are the first users of the library in their process did not end within 25 s")
		return o
	}
	var cr coldResult
	if jerr := json.Unmarshal(ob.Bytes(), &cr); jerr != nil {
		head := "no headline"
		for _, l := range strings.Split(eb.String(), "\n") {
			if strings.HasPrefix(l, "fatal error:") || strings.HasPrefix(l, "panic:") {
				head = l
				break
			}
		}
		o.violate("C11/process-died", "cold start: "+head, "the fresh process died (%v):\n%s", err, clip(eb.String(), 1500))
		return o
	}
	c.Adopt(cr.Trace)
	o.Digest.U64(cr.Digest)
	o.Nontrivial, o.Ticks, o.V = cr.Nontrivial, cr.Ticks, cr.V
	st.probe("cold-start-runs(first use of the library inside tasks)")
	if render {
		o.Sample = cr.Sample
	}
	return o
}

func (p *c11) Run(c *verifsim.Chooser, st *Stats, render bool) *Outcome {
	// one case in thirty runs in a fresh process (nothing of the library has
	// run there yet); the same draw says under which $TZ (unset, or one of two
	// named zones: built-ins that depend on the environment take other paths)
	k := c.Intn(90)
	cold := k >= 1 && k <= 3
	inChild := os.Getenv("VERIF_C11_CHILD") != ""
	if cold && !inChild {
		return p.runCold(c, st, render, []string{"", "Europe/Berlin", "Asia/Kolkata"}[k-1])
	}
	o := &Outcome{}
	setDesc("concurrency simulation")
	verifsim.DiscardStdout()
	defer verifsim.CaptureStdout()

	nEvals := 1
	if c.Intn(3) == 2 {
		nEvals = 2
	}
	nTasks := 2 + c.Intn(4)
	var evals []*c11Eval
	// half of the runs use one script text for every evaluator: state that
	// leaks between evaluators through something keyed by the text (interned
	// constants, caches) needs the same literals on both sides
	sameText := c.Intn(2) == 1
	famAll, parAll := c.Intn(len(c11Families)), c.Intn(12)
	mk := func(shared bool) *c11Eval {
		ev := &c11Eval{fam: &c11Families[c.Intn(len(c11Families))], par: c.Intn(12), shared: shared}
		if sameText {
			ev.fam, ev.par = &c11Families[famAll], parAll
		}
		// error paths: every family may get a guard that fails on some objects
		ev.guard = c.Intn(2) == 1
		if ev.fam.regexp && c.Intn(4) == 1 {
			// a pattern text nobody has compiled yet in this process: both
			// tasks miss the package-level regexp cache
			ev.tag = fmt.Sprintf("(?:Z%d){0}", c.Intn(1<<30))
		}
		return ev
	}
	if cold {
		nEvals = 0 // nothing is prepared before the tasks start
	}
	for i := 0; i < nEvals; i++ {
		ev := mk(true)
		if err := ev.build(); err != nil {
			o.violate("C11/harness", "prepare", "family %s did not prepare: %v", ev.fam.name, err)
			return o
		}
		evals = append(evals, ev)
	}
	var cloneBase *c11Eval
	if len(apiCloners) > 0 && !cold {
		for _, name := range []string{"read-only-foreach", "foreach-over-literals", "predicate-regexp"} {
			for i := range c11Families {
				if c11Families[i].name == name && cloneBase == nil && (famAll+parAll)%3 == len(name)%3 {
					cloneBase = &c11Eval{fam: &c11Families[i], par: parAll}
				}
			}
		}
		if cloneBase == nil {
			for i := range c11Families {
				if c11Families[i].name == "foreach-over-literals" {
					cloneBase = &c11Eval{fam: &c11Families[i], par: parAll}
				}
			}
		}
		if err := cloneBase.build(); err != nil {
			cloneBase = nil
		} else {
			st.probe("discovered-api:" + apiCloners[0])
		}
	}
	type taskPlan struct {
		own  *c11Eval // lifecycle inside the task
		eval int      // index into evals for shared clients
		objs []Obj
		ops  []*c11Op
		err  string
	}
	plans := make([]*taskPlan, nTasks)
	for t := 0; t < nTasks; t++ {
		pl := &taskPlan{}
		if nEvals > 0 {
			pl.eval = c.Intn(nEvals)
		}
		if c.Intn(4) == 1 || cold {
			pl.own = mk(false)
			pl.eval = -1
		}
		nops := 1 + c.Intn(4)
		for k := 0; k < nops; k++ {
			ob, _ := genObject(c)
			var oo Obj
			switch v := ob.(type) {
			case Obj:
				oo = v
			case *Obj:
				oo = *v
			default:
				oo = Obj{A: c.Intn(4), B: c.Intn(3), C: c.Intn(3), S: []string{"ab", "hall", "héllo", "", "hello\nab"}[c.Intn(5)], Items: []int{1, 2, 3}[:c.Intn(4)]}
			}
			pl.objs = append(pl.objs, oo)
		}
		plans[t] = pl
	}

	s := verifsim.NewSched(c, c11StepCap)
	c11seq = 0
	for t := 0; t < nTasks; t++ {
		t := t
		pl := plans[t]
		s.Go(func() {
			defer func() {
				if r := recover(); r != nil {
					pl.err = fmt.Sprint("task panicked: ", r)
				}
			}()
			ev := pl.own
			evIdx := pl.eval
			if ev != nil && cloneBase != nil && (t+ev.par)%2 == 0 {
				// API the pinned tree does not have: a method that returns
				// another evaluator (Clone, Fork, …).  The task works on its
				// own copy of a prepared evaluator with a stateless script.
				out, pan := apiCall(cloneBase.e, apiCloners[0])
				if pan != "" || len(out) == 0 || out[0].IsNil() {
					pl.err = "clone: " + pan
					return
				}
				cp := *cloneBase
				cp.e = out[0].Interface().(*evalfilter.Eval)
				cp.shared = false
				ev = &cp
				pl.own = ev
			} else if ev != nil {
				// whole life cycle inside the task: New, AddFunction,
				// SetVariable, SetContext, Prepare
				if err := ev.build(); err != nil {
					pl.err = "prepare: " + err.Error()
					return
				}
			} else {
				ev = evals[evIdx]
			}
			for k := range pl.objs {
				op := &c11Op{Task: t, Eval: evIdx, Obj: pl.objs[k]}
				verifsim.Yield(verifsim.YOpStart, k)
				ev.ctx.OpBoundary(t)
				op.Call = c11NextSeq()
				obj := pl.objs[k]
				var r Result
				ev.ctx.Do(func() { r = doRun(ev.e, obj) })
				op.Return = c11NextSeq()
				verifsim.Yield(verifsim.YOpEnd, k)
				op.Verdict, op.Failed, op.Err, op.Panicked = r.Truth, r.Failed, r.Err, r.Escaped != nil
				if r.Escaped != nil {
					op.Err = r.Escaped.Value
				}
				op.Emitted = ev.take(t)
				pl.ops = append(pl.ops, op)
			}
			if pl.own != nil {
				// GetVariable at the end of the life cycle
				_ = ev.e.GetVariable("n")
			}
		})
	}
	s.Run()

	o.Digest.U64(s.D.H)
	o.Ticks = int64(s.Steps)
	p.nsched[s.SchedD.H] = struct{}{}
	if s.Switches > 0 {
		o.Nontrivial = true
	}
	st.probeN("task-switches", int64(s.Switches))
	st.probeN("yields", int64(s.Steps))
	st.probe(fmt.Sprintf("policy-%d", s.Policy))
	if s.PreemptAfterUnlock > 0 {
		st.probe("preempted-right-after-unlock")
	}
	if s.MaxBlocked >= 2 {
		st.probe(">=2-tasks-blocked-on-a-mutex")
	}
	if s.MaxBlocked >= 3 {
		st.probe(">=3-tasks-blocked-on-a-mutex")
	}
	st.max("max_blocked_tasks", int64(s.MaxBlocked))

	if s.Deadlock {
		// the parked tasks never finish: their data must not be touched and
		// this process must not be used for further runs
		o.Poisoned = true
		if s.DeadlockUncertain {
			o.violate("C11/harness", "deadlock involving an unbuffered channel or a select", "every unfinished task is waiting, but at least one of them in an operation the simulator only approximates (rendezvous on an unbuffered channel, select): it cannot tell whether the real program would deadlock")
		} else {
			o.violate("C11/deadlock", "all unfinished tasks blocked on a mutex", "no runnable task while some are unfinished (a Run/Prepare call never returns)")
		}
		if render {
			o.Sample = p.render(s, evals, 0, nil)
		}
		return o
	}
	if render {
		o.Sample = p.render(s, evals, nTasks, func(t int) ([]*c11Op, *c11Eval, string) { return plans[t].ops, plans[t].own, plans[t].err })
	}

	if s.Aborted {
		o.violate("C11/not-terminating", "step cap", "the simulation exceeded %d scheduling points", c11StepCap)
		return o
	}

	// (a) race detector
	p.checkRaces(o, st)

	// (c) mutual exclusion monitor
	// (c) is a reach probe, not an oracle: an implementation may
	// legitimately run read-only scripts of one evaluator in parallel; what it
	// may not do is race or return a verdict no sequential order explains
	for _, ev := range evals {
		if ev.ctx.Overlap {
			st.probe("instructions-of-two-runs-on-one-evaluator-interleaved")
		}
	}

	// (b) linearizability, partitioned per evaluator
	for t := 0; t < nTasks; t++ {
		if plans[t].err != "" {
			o.violate("C11/task-failed", "own-evaluator="+fmt.Sprint(plans[t].own != nil), "task %d: %s", t, plans[t].err)
		}
	}
	check := func(ev *c11Eval, ops []*c11Op, shared bool) {
		if len(ops) == 0 {
			return
		}
		var pops []porcupine.Operation
		for _, op := range ops {
			em := fmt.Sprint(op.Emitted)
			if len(op.Emitted) == 0 {
				em = "[]"
			}
			pops = append(pops, porcupine.Operation{ClientId: op.Task, Input: c11In{obj: op.Obj}, Call: op.Call,
				Output: c11Out{verdict: op.Verdict, failed: op.Failed || op.Panicked, emitted: em}, Return: op.Return})
		}
		// final read of the persistent variable
		name := ""
		switch ev.fam.name {
		case "counter", "decrementing-register":
			name = "n"
		case "fails-on-some-objects":
			name = "k"
		case "accumulate-and-store":
			name = "last"
		}
		if name != "" {
			v := ev.e.GetVariable(name)
			if iv, ok := v.(*object.Integer); ok {
				pops = append(pops, porcupine.Operation{ClientId: 7, Input: c11In{isRead: true}, Call: 1 << 40, Output: c11Out{readVal: iv.Value}, Return: 1<<40 + 1})
			} else if ev.fam.name != "accumulate-and-store" {
				o.violate("C11/not-linearizable", ev.fam.name+fmt.Sprintf(" shared=%v", shared), "persistent variable %s is %s after the runs", name, show(v))
				return
			}
		}
		fam, par, guard := ev.fam, ev.par, ev.guard
		model := porcupine.Model{
			Init: func() interface{} { return fam.state0(par) },
			Step: func(state, in, out interface{}) (bool, interface{}) {
				s := state.(int64)
				i := in.(c11In)
				ou := out.(c11Out)
				if i.isRead {
					return ou.readVal == s, s
				}
				if guard && i.obj.C == -1 {
					// the guard statement fails before anything else happens
					return ou.failed && ou.emitted == "[]", s
				}
				ns, verdict, emitted := fam.step(s, &i.obj, par)
				em := "[]"
				if len(emitted) > 0 {
					em = fmt.Sprint(emitted)
				}
				if fam.fails != nil && fam.fails(&i.obj, par) {
					return ou.failed && ou.emitted == em, ns
				}
				return !ou.failed && ou.verdict == verdict && ou.emitted == em, ns
			},
			Equal: func(a, b interface{}) bool { return a.(int64) == b.(int64) },
		}
		res := porcupine.CheckOperationsTimeout(model, pops, 10*time.Second)
		switch res {
		case porcupine.Illegal:
			var hs []string
			for _, op := range ops {
				hs = append(hs, fmt.Sprintf("task%d[%d..%d] Run(%+v) -> truth=%v failed=%v %s emitted=%v", op.Task, op.Call, op.Return, op.Obj, op.Verdict, op.Failed || op.Panicked, op.Err, op.Emitted))
			}
			o.violate("C11/not-linearizable", ev.fam.name+fmt.Sprintf(" shared=%v", shared), "no one-at-a-time order explains the results of script %q:\n%s", ev.text, strings.Join(hs, "\n"))
		case porcupine.Unknown:
			p.unknown++
			st.probe("porcupine-inconclusive")
		}
	}
	for i, ev := range evals {
		var ops []*c11Op
		for t := 0; t < nTasks; t++ {
			for _, op := range plans[t].ops {
				if op.Eval == i {
					ops = append(ops, op)
				}
			}
		}
		if len(ops) > 0 {
			clients := map[int]bool{}
			for _, op := range ops {
				clients[op.Task] = true
			}
			if len(clients) >= 2 {
				st.probe("evaluator-shared-by->=2-tasks")
			}
		}
		check(ev, ops, true)
	}
	for t := 0; t < nTasks; t++ {
		if plans[t].own != nil && plans[t].own.e != nil && plans[t].err == "" {
			st.probe("own-evaluator-life-cycle-in-task")
			check(plans[t].own, plans[t].ops, false)
		}
	}
	for _, v := range o.V {
		// (race reports are deduplicated per process by the detector, so
		// they are not part of the per-run digest)
		if v.Class != "C11/data-race" {
			o.Digest.Str(v.Class)
		}
	}
	return o
}

// ExternalMinimise: candidates are re-executed in fresh processes (the race
// detector reports a given race once per process; a deadlock leaves parked
// goroutines behind).
func (p *c11) ExternalMinimise() bool { return true }

func (p *c11) render(s *verifsim.Sched, evals []*c11Eval, nTasks int, get func(int) ([]*c11Op, *c11Eval, string)) interface{} {
	var evs []string
	for i, ev := range evals {
		evs = append(evs, fmt.Sprintf("E%d (shared) %s: %s", i, ev.fam.name, ev.text))
	}
	var tasks []string
	for t := 0; t < nTasks; t++ {
		ops, own, err := get(t)
		var sb strings.Builder
		if own != nil {
			fmt.Fprintf(&sb, "own evaluator %s: %s; ", own.fam.name, own.text)
		}
		for _, op := range ops {
			fmt.Fprintf(&sb, "E%d.Run(%+v)@[%d,%d]->%v%s ", op.Eval, op.Obj, op.Call, op.Return, op.Verdict, map[bool]string{true: " ERR " + op.Err, false: ""}[op.Failed || op.Panicked])
		}
		if err != "" {
			sb.WriteString(" TASK ERROR: " + err)
		}
		tasks = append(tasks, fmt.Sprintf("task%d: %s", t, sb.String()))
	}
	// schedule: run-length encoded task ids at scheduling points
	var sch []string
	cur, n := int8(-2), 0
	kinds := map[uint8]string{verifsim.YLock: "L", verifsim.YUnlock: "U", verifsim.EvBlock: "B", verifsim.EvGrant: "G", verifsim.YOpStart: "<", verifsim.YOpEnd: ">", verifsim.EvDone: "$", verifsim.YHost: "h"}
	marks := ""
	flush := func() {
		if cur != -2 {
			sch = append(sch, fmt.Sprintf("t%d:%d%s", cur, n, marks))
		}
	}
	for i := 0; i < s.NEvents && len(sch) < 400; i++ {
		ev := s.Events[i]
		if ev.Kind == verifsim.EvSwitch {
			continue
		}
		if ev.Task != cur {
			flush()
			cur, n, marks = ev.Task, 0, ""
		}
		n++
		if m, ok := kinds[ev.Kind]; ok {
			marks += m
		}
	}
	flush()
	return map[string]interface{}{
		"evaluators": evs, "tasks": tasks, "policy": []string{"run-to-completion+preemptions", "uniform", "sticky", "pct", "sync-points-only"}[s.Policy],
		"yields": s.Steps, "switches": s.Switches,
		"schedule": strings.Join(sch, " "), "schedule_legend": "tN:k = task N ran k scheduling points; L lock, G granted, U unlock, B blocked, < op start, > op end, h host call, $ task done",
	}
}

// ---- race detector log ----

var reRaceFrame = regexp.MustCompile(`^\s+(github\.com/skx/evalfilter/v2\S*)\(\)\s*$`)

func (p *c11) checkRaces(o *Outcome, st *Stats) {
	if p.raceLog == "" {
		return
	}
	fi, err := os.Stat(p.raceLog)
	if err != nil || fi.Size() <= p.raceOff {
		return
	}
	f, err := os.Open(p.raceLog)
	if err != nil {
		return
	}
	defer f.Close()
	buf := make([]byte, fi.Size()-p.raceOff)
	f.ReadAt(buf, p.raceOff)
	p.raceOff = fi.Size()
	for _, rep := range bytes.Split(buf, []byte("==================")) {
		if !bytes.Contains(rep, []byte("DATA RACE")) {
			continue
		}
		// the access stacks are the blocks before the first "Goroutine N (…) created at:"
		text := string(rep)
		if i := strings.Index(text, "\nGoroutine "); i >= 0 {
			text = text[:i]
		}
		blocks := strings.Split(text, "\n\n")
		var frames []string
		for _, b := range blocks {
			if !strings.Contains(b, " by goroutine ") && !strings.Contains(b, " by main goroutine") {
				continue
			}
			lib := ""
			for _, l := range strings.Split(b, "\n") {
				if m := reRaceFrame.FindStringSubmatch(l); m != nil && !strings.Contains(m[1], "/verifsim.") {
					lib = strings.TrimPrefix(m[1], "github.com/skx/evalfilter/v2")
					break
				}
			}
			frames = append(frames, lib)
		}
		if len(frames) < 2 || frames[0] == "" || frames[1] == "" {
			p.harnessBug = string(rep)
			o.violate("C11/harness", "race-with-harness-only-stack", "the race detector reported a race in which one side has no evalfilter frame (harness bug?):\n%s", string(rep))
			continue
		}
		pair := []string{frames[0], frames[1]}
		sort.Strings(pair)
		sig := pair[0] + " <-> " + pair[1]
		st.probe("race-reports")
		o.violate("C11/data-race", sig, "the Go race detector reported, under this schedule:\n%s", strings.TrimSpace(string(rep)))
	}
}
