package main

import (
	"fmt"
	"strings"

	"github.com/skx/evalfilter/v2/verifsim"
)

// Script generator shared by C07, C08 and C19 (DESIGN appendix A).  Every
// choice is drawn from the run's Chooser and 0 is always the simplest option.

// GenCfg selects the language features a property wants.
type GenCfg struct {
	Funcs    bool // user-defined functions
	Faults   bool // fragments that fail at run time, guarded by maybe()/object
	Hashes   bool // hash literals, keys(), iteration over hashes
	TieKeys  bool // hash keys whose printed forms coincide (C19 only)
	Prints   bool // string(), sprintf("%v") of containers
	MaxStmts int
}

// Script is a generated program plus what the oracles need to know about it.
type Script struct {
	Text string
	// Globals are names that are global by the structure of the script
	// (assigned at top level or inside functions without `local`).
	Globals []string
	// Scoped are names that only ever exist in a local scope (parameters,
	// `local`s, loop variables): GetVariable must not see them after a run.
	Scoped []string
	NFuncs int
	Arity  []int
}

type gen struct {
	c      *verifsim.Chooser
	cfg    GenCfg
	sb     strings.Builder
	inFn   bool
	nparam int
	params []string
	depth  int
	loopN  int
	nfuncs int
	arity  []int
	usedV  map[string]bool
	ctr    int
}

var (
	genGlobals = []string{"g0", "g1", "g2", "g3"}
	genFields  = []string{"A", "B", "C"}
)

func (g *gen) w(format string, a ...interface{}) { fmt.Fprintf(&g.sb, format, a...) }

func (g *gen) pick(opts ...string) string { return opts[g.c.Intn(len(opts))] }

// intAtom yields an expression that is normally an integer.
func (g *gen) intAtom() string {
	n := 8
	if g.inFn {
		n = 10
	}
	switch g.c.Intn(n) {
	case 0:
		return fmt.Sprint(g.c.Intn(6))
	case 1:
		return g.pick("g0", "g1")
	case 2:
		if g.c.Intn(6) == 1 {
			return g.pick("$A", "$B", "$g0", "$C") // legacy spelling of names
		}
		if g.cfg.TieKeys && g.c.Intn(4) == 1 {
			return g.pick("a", "b", "id", "Id", "url") // names that match a field only up to case
		}
		return g.pick(genFields...)
	case 3:
		return g.pick("70000", "65535", "100000", "65534", "123456789")
	case 4:
		return fmt.Sprintf("len(%s)", g.pick("g2", "S", "Items", "g3"))
	case 5:
		return fmt.Sprintf("h(%s)", g.intAtom())
	case 6:
		return "-" + fmt.Sprint(1+g.c.Intn(5))
	case 7:
		return fmt.Sprintf("g2[%d]", g.c.Intn(4))
	case 8:
		if g.nparam > 0 {
			return g.params[g.c.Intn(g.nparam)]
		}
		return "l0"
	default:
		return "l0"
	}
}

func (g *gen) intExpr(d int) string {
	if d <= 0 || g.c.Intn(3) == 0 {
		return g.intAtom()
	}
	switch g.c.Intn(6) {
	case 0:
		return fmt.Sprintf("(%s + %s)", g.intExpr(d-1), g.intExpr(d-1))
	case 1:
		return fmt.Sprintf("(%s - %s)", g.intExpr(d-1), g.intAtom())
	case 2:
		return fmt.Sprintf("(%s * %s)", g.intAtom(), g.intAtom())
	case 3:
		if g.nfuncs > 0 && !g.inFn {
			return g.callExpr()
		}
		return g.intAtom()
	case 4:
		return fmt.Sprintf("(%s %% %d)", g.intAtom(), 2+g.c.Intn(5))
	default:
		return fmt.Sprintf("(%s + %s)", g.pick("1.5", "2.25", "0.5"), g.intAtom())
	}
}

func (g *gen) cond() string {
	switch g.c.Intn(7) {
	case 0:
		return fmt.Sprintf("%s < %s", g.intAtom(), g.intAtom())
	case 1:
		return fmt.Sprintf("%s == %s", g.intAtom(), g.intAtom())
	case 2:
		return "maybe()"
	case 3:
		return fmt.Sprintf("%s > %d && %s", g.intAtom(), g.c.Intn(4), "maybe()")
	case 4:
		return fmt.Sprintf("S ~= /%s/%s", g.pick("a", "^h", "b$", "l+"), g.pick("", "", "i", "m", "im", "mi", "imi"))
	case 5:
		return fmt.Sprintf("%s in g2", g.intAtom())
	default:
		return fmt.Sprintf("%s != %s || %s", g.intAtom(), g.intAtom(), g.pick("true", "false", "g1"))
	}
}

func (g *gen) iterable() string {
	n := 6
	if g.cfg.Hashes {
		n = 9
	}
	switch g.c.Intn(n) {
	case 0:
		return fmt.Sprintf("[%s, %s, %s]", g.intAtom(), g.intAtom(), g.intAtom())
	case 1:
		return fmt.Sprintf("1..%d", 1+g.c.Intn(4))
	case 2:
		return g.pick(`"abc"`, `"héé"`, `""`, "S")
	case 3:
		return "g2"
	case 4:
		return "Items"
	case 5:
		return fmt.Sprintf("[%s]", g.intAtom())
	case 6:
		return g.hashLit()
	case 7:
		return "g3"
	default:
		return "keys(g3)"
	}
}

func (g *gen) hashLit() string {
	n := 1 + g.c.Intn(4)
	parts := make([]string, 0, n)
	for i := 0; i < n; i++ {
		var k string
		if g.cfg.TieKeys && g.c.Intn(3) == 1 {
			k = g.pick(`1`, `"1"`, `1.0`, `"a"`, `"a"`, `2`, `"2"`, `true`, `"true"`, `"01"`, `"1.0"`, `"+1"`, `" 1"`, `"1e0"`, `"A"`, `"2.50"`, `2.5`, `"2.5"`, `"nan"`, `"NaN"`, `"inf"`, `"-0"`, `"1e400"`, `"0x1"`, `"80"`, `"443"`, `"53/udp"`, `80`, `443`)
		} else {
			k = g.pick(`"a"`, `"b"`, `"c"`, `"k"`, `1`, `2`, `3`, `"zz"`, `10`, `"10"`, `2.5`, `true`)
			// avoid accidental ties unless asked for
			if !g.cfg.TieKeys {
				k = []string{`"a"`, `"b"`, `"c"`, `"k"`, `"zz"`, `7`, `8`, `9`, `2.5`, `"m"`}[(g.c.Intn(3)+i*3)%10]
			}
		}
		if g.cfg.TieKeys && g.c.Intn(8) == 1 {
			// a key computed from a nested hash literal: the compiler orders
			// the pairs by the printed form of the key expression
			k = fmt.Sprintf("len({\"p\": %d, \"q\": 2, \"r\": %d})", i, i+1)
		}
		parts = append(parts, fmt.Sprintf("%s: %s", k, g.intAtom()))
	}
	return "{" + strings.Join(parts, ", ") + "}"
}

func (g *gen) callExpr() string {
	f := g.c.Intn(g.nfuncs)
	args := make([]string, g.arity[f])
	for i := range args {
		args[i] = g.intAtom()
	}
	return fmt.Sprintf("f%d(%s)", f, strings.Join(args, ", "))
}

func (g *gen) target() string {
	if g.inFn {
		switch g.c.Intn(5) {
		case 1:
			return "l0"
		case 2:
			if g.nparam > 0 {
				return g.params[g.c.Intn(g.nparam)]
			}
		}
	}
	return g.pick("g0", "g1")
}

func (g *gen) fault() {
	switch g.c.Intn(10) {
	case 0:
		g.w("g0 = 10 / B;\n")
	case 1:
		g.w("g0 = 7 %% B;\n")
	case 2:
		g.w("g1 = \"s\"[\"x\"];\n")
	case 3:
		g.w("g1 = 1 + \"s\";\n")
	case 4:
		g.w("g1 = nosuch(1);\n")
	case 5:
		if g.nfuncs > 0 {
			g.w("g1 = f0(1, 2, 3, 4, 5);\n")
		} else {
			g.w("g0 = -\"x\";\n")
		}
	case 6:
		g.w("panic(\"p\");\n")
	case 7:
		g.w("g1 = boom();\n")
	case 8:
		g.w("foreach v1 in 3 { g0 = v1; }\n")
	default:
		g.w("g0 = hnil(1);\n")
	}
}

func (g *gen) block(max int) {
	g.w("{\n")
	g.depth++
	n := 1 + g.c.Intn(max)
	for i := 0; i < n; i++ {
		g.stmt()
	}
	g.depth--
	g.w("}\n")
}

func (g *gen) stmt() {
	n := 14
	if g.depth >= 3 {
		n = 5
	}
	k := g.c.Intn(n)
	switch k {
	case 0:
		g.w("%s = %s;\n", g.target(), g.intExpr(2))
	case 1:
		g.w("%s%s;\n", g.target(), g.pick("++", "--"))
	case 2:
		g.w("%s %s %s;\n", g.target(), g.pick("+=", "-=", "*="), g.intAtom())
	case 3:
		g.w("hv(%s, %s);\n", g.intExpr(1), g.pick("g2", "g3", "S", "g0", "\"x\"", "\"$A\"", "\"$g0\"", "\"A\"", "\"g0\""))
	case 4:
		if g.inFn || g.c.Intn(3) == 1 {
			g.w("return %s;\n", g.intExpr(1))
		} else {
			g.w("hv(%s);\n", g.intAtom())
		}
	case 5:
		g.w("if (%s) ", g.cond())
		g.block(3)
		if g.c.Bool() {
			g.sb.WriteString("else ")
			g.block(2)
		}
	case 6:
		// bounded loop: the counter is a (local or global) scratch variable
		// (named after the nesting depth so nested loops never share one)
		cn := fmt.Sprintf("c%d", g.depth)
		if g.inFn {
			cn = fmt.Sprintf("k%d", g.depth)
			g.w("local %s;\n", cn)
		}
		g.w("%s = 0;\n%s (%s < %d) {\n%s++;\n", cn, g.pick("while", "for"), cn, 1+g.c.Intn(4), cn)
		g.depth++
		m := 1 + g.c.Intn(2)
		for i := 0; i < m; i++ {
			g.stmt()
		}
		g.depth--
		g.w("}\n")
	case 7:
		g.loopN++
		v := fmt.Sprintf("v%d", g.loopN%2)
		if g.c.Intn(6) == 1 {
			v = "g1" // a loop variable that shadows a global
		}
		if g.c.Bool() {
			g.w("foreach i%d, %s in %s ", g.loopN%2, v, g.iterable())
		} else {
			g.w("foreach %s in %s ", v, g.iterable())
		}
		g.w("{\n")
		g.depth++
		if g.c.Intn(4) != 3 {
			g.w("%s = %s;\n", g.pick("g0", "g1"), g.pick(v, "g0 + 1", "g1 + 2", "h("+v+")"))
		}
		m := g.c.Intn(3)
		for i := 0; i < m; i++ {
			g.stmt()
		}
		g.depth--
		g.w("}\n")
	case 8:
		g.w("switch (%s) {\n", g.intAtom())
		nc := 1 + g.c.Intn(3)
		for i := 0; i < nc; i++ {
			g.w("case %d", g.c.Intn(4))
			if g.c.Intn(3) == 1 {
				g.w(", %d", 4+g.c.Intn(3))
			}
			g.w(" ")
			g.block(2)
		}
		if g.c.Bool() {
			g.w("default ")
			g.block(2)
		}
		g.w("}\n")
	case 9:
		if g.nfuncs > 0 && !g.inFn {
			// (a call in statement position leaves its result on the value
			// stack, which derails an enclosing foreach: always assign)
			g.w("%s = %s;\n", g.pick("g0", "g1"), g.callExpr())
		} else if g.nfuncs > 1 && g.inFn && g.c.Intn(3) == 1 {
			// functions may call lower-numbered... any other function: keep
			// the call graph acyclic by only calling higher indexes
			g.w("g1 = g1 + 1;\n")
		} else {
			g.w("g1 = %s;\n", g.intExpr(1))
		}
	case 10:
		if g.cfg.Faults {
			if g.c.Bool() {
				g.w("if (maybe()) {\n")
				g.fault()
				g.w("}\n")
			} else {
				g.fault()
			}
		} else {
			g.w("g0 = g0 + 1;\n")
		}
	case 11:
		// init-once persistent container, then use it
		switch g.c.Intn(3) {
		case 0:
			g.w("if (!g2) { g2 = [%s, %s, 70000]; }\n", g.intAtom(), g.intAtom())
		case 1:
			if g.cfg.Hashes {
				g.w("if (!g3) { g3 = %s; }\n", g.hashLit())
			} else {
				g.w("if (!g3) { g3 = \"persist\"; }\n")
			}
		default:
			g.w("g2 = [g0, g1, %s];\n", g.intAtom())
		}
	case 12:
		g.w("%s = %s ? %s : %s;\n", g.pick("g0", "g1"), g.cond(), g.intAtom(), g.intAtom())
	default:
		if g.cfg.Prints {
			switch g.c.Intn(4) {
			case 0:
				g.w("hv(string(g3), string(g2));\n")
			case 1:
				g.w("hv(sprintf(\"%%v|%%v\", g3, %s));\n", g.hashLit())
			case 2:
				g.w("hv(keys(%s));\n", g.hashLit())
			default:
				g.w("foreach i0, v0 in %s { hv(i0, v0); }\n", g.hashLit())
			}
		} else {
			g.w("g0 = %s;\n", g.intExpr(2))
		}
	}
}

// GenScript draws one script.
func GenScript(c *verifsim.Chooser, cfg GenCfg) *Script {
	g := &gen{c: c, cfg: cfg}
	if cfg.MaxStmts == 0 {
		cfg.MaxStmts = 6
		g.cfg.MaxStmts = 6
	}
	if cfg.Funcs {
		g.nfuncs = c.Intn(4)
	}
	for i := 0; i < g.nfuncs; i++ {
		g.arity = append(g.arity, c.Intn(3))
	}
	// main body first (0 draws => "g0 = 0;"-like single statement)
	var body strings.Builder
	n := 1 + c.Intn(g.cfg.MaxStmts)
	for i := 0; i < n; i++ {
		g.stmt()
	}
	if c.Intn(3) != 2 {
		g.w("return %s;\n", g.intExpr(1))
	}
	body.WriteString(g.sb.String())
	g.sb.Reset()
	// functions
	for f := 0; f < g.nfuncs; f++ {
		ps := make([]string, g.arity[f])
		for i := range ps {
			ps[i] = fmt.Sprintf("p%d", i)
		}
		if len(ps) > 0 && c.Intn(3) == 1 {
			// a parameter that shadows a global of the same name
			ps[0] = g.pick("g0", "g1")
		}
		g.params = ps
		fnStart := g.sb.Len()
		g.w("function f%d(%s) {\nlocal l0;\nlocal l1;\nl0 = %d;\n", f, strings.Join(ps, ", "), c.Intn(3))
		g.inFn, g.nparam, g.depth = true, g.arity[f], 1
		m := 1 + c.Intn(4)
		for i := 0; i < m; i++ {
			g.stmt()
		}
		// deeper call chains: f_i may call f_{i+1}
		if f+1 < g.nfuncs && c.Bool() {
			args := make([]string, g.arity[f+1])
			for i := range args {
				args[i] = g.intAtom()
			}
			g.w("g1 = f%d(%s);\n", f+1, strings.Join(args, ", "))
		}
		if c.Bool() {
			g.w("return %s;\n", g.intExpr(1))
		}
		g.inFn, g.nparam, g.depth = false, 0, 0
		g.w("}\n")
		if c.Intn(4) == 1 {
			// the same function again under other names (an engine that
			// shares what identical bodies compile to must still treat
			// them as separate functions)
			def := g.sb.String()[fnStart:]
			head := fmt.Sprintf("function f%d(", f)
			for d := 0; d <= c.Intn(2); d++ {
				g.sb.WriteString(strings.Replace(def, head, fmt.Sprintf("function d%d_%d(", f, d), 1))
			}
		}
	}
	text := g.sb.String() + body.String()
	return &Script{
		Text:    text,
		Globals: []string{"g0", "g1", "g2", "g3", "c0", "c1", "c2", "c3", "c4"},
		Scoped:  []string{"p0", "p1", "p2", "l0", "l1", "v0", "v1", "i0", "i1", "k1", "k2", "k3", "k4", "k5"},
		NFuncs:  g.nfuncs,
		Arity:   g.arity,
	}
}
