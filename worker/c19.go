package main

import (
	"fmt"
	"unsafe"
	"os"
	"path/filepath"
	"strings"
	"time"

	evalfilter "github.com/skx/evalfilter/v2"
	"github.com/skx/evalfilter/v2/object"
	"github.com/skx/evalfilter/v2/verifsim"
)

// C19 — preparing and running a script is deterministic (DESIGN 3/C19).
//
// The iteration order of every map the library ranges over is behind the
// verifsim seam.  A case (script, objects, Prepare / runs / second Prepare) is
// executed under the canonical ascending order and then again under
// descending order, rotations, seeded per-call shuffles and all 24
// permutations (exhaustive for maps of <= 4 entries), plus twice under Go's
// native randomised order.  Everything observable must be identical.

type c19 struct {
	nowSeen   int64
	seamProbe bool
}

func newC19() Prop { return &c19{} }

func init() { propFactories["C19"] = newC19 }

func (p *c19) ID() string { return "C19" }

// a hash with more entries than any small-size fast path would take, with keys
// that print alike but differ in type
var c19BigHash = func() string {
	var b strings.Builder
	b.WriteString("h = {")
	for i := 0; i < 35; i++ {
		if i > 0 {
			b.WriteString(", ")
		}
		switch i % 5 {
		case 0:
			fmt.Fprintf(&b, "%d: \"i%d\"", i, i)
		case 1:
			fmt.Fprintf(&b, "\"%d\": \"s%d\"", i-1, i)
		case 2:
			fmt.Fprintf(&b, "\"k%d\": %d", i, i)
		case 3:
			fmt.Fprintf(&b, "%d.0: \"f%d\"", i-3, i)
		default:
			fmt.Fprintf(&b, "\"K%d\": [%d]", i-2, i)
		}
	}
	b.WriteString("}; hv(string(h)); hv(keys(h)); n = 0; foreach k, v in h { n++; hv(k); } return n;")
	return b.String()
}()

var c19Corpus = []string{
	// members of the object that have no value form: whatever the engine makes of them
	`hv(string(Ch)); hv(string(Fn)); hv(string(Raw)); hv(string(Slots)); hv(string(Any)); hv(sprintf("%v %s %d", Ch, Fn, Slots)); return [Small, Wide, type(Ch), type(Slots), Retries, Next];`,
	// several mistakes in one script: which one is reported must not vary
	`function one(a) { return a; } function two(a, b) { return a + b; } function three(a, b, c) { return a; } x = one(1, 2); y = two(1); z = three(); return x;`,
	`function p(a) { return a; } function q(a) { return a; } if (A > 100) { return p(); } if (A > 200) { return q(1, 2); } return nosuch1(1) + nosuch2(2) + p(1, 2) + q();`,
	`x = undefined_one(1); y = undefined_two(2); z = undefined_three(3); return x;`,
	// keys that read as numbers without behaving like them, and number-like strings between numbers
	`h = {"nan": 1, "NaN": 2, 3: "three", 10: "ten", "inf": 4, "-0": 5, 0: 6, "1e400": 7, 2.5: 8, "-inf": 9}; hv(string(h)); hv(keys(h)); foreach k, v in h { hv(k); } return len(h);`,
	`ports = {80: "http", 443: "https", "53/udp": "dns", 22: "ssh", "8080": "alt", "_x": 1, "9": 2}; hv(keys(ports)); foreach k, v in ports { hv(k); hv(v); } return string(ports);`,
	// several spellings of one number, as strings and as numbers
	`h = {"7": 1, "07": 2, "7.0": 3, 7: 4, "1e1": 5, "10": 6, " 7": 7, "+7": 8, 7.0: 9, "0x7": 10}; hv(string(h)); hv(keys(h)); foreach k, v in h { hv(k); } return len(h);`,
	`h = {"b": 1, "B": 2, "a": 3, "A": 4, "ß": 5, "SS": 6, "é": 7, "e": 8, "É": 9}; hv(keys(h)); foreach k in keys(h) { hv(k); } return string(h);`,
	c19BigHash,
	"x = " + strings.TrimSuffix(strings.SplitN(c19BigHash, "; hv(", 2)[0], "") + "; return len(keys(h)) + len(string(h));",
	// regular-expression literals with several flags, seen as text
	"x = /^h.*l$/im; hv(string(x)); return S ~= x;",
	"return string(/a+/mi) + string(/a+/im) + string(/b/i) + string(/c/m);",
	"r = [/x/im, /y/mi, /z/imim]; foreach v in r { hv(v); } return len(r);",
	// several functions with the same body, with constants to fold
	"function a(x) { return x + 2 * 3 + 4; } function b(x) { return x + 2 * 3 + 4; } function c(x) { return x + 2 * 3 + 4; } return a(1) + b(2) + c(3);",
	"function p1() { if (1 + 1 == 2) { return 6 * 7; } return 0; } function p2() { if (1 + 1 == 2) { return 6 * 7; } return 0; } function p3() { if (1 + 1 == 2) { return 6 * 7; } return 0; } function p4() { if (1 + 1 == 2) { return 6 * 7; } return 0; } return p1() + p2() + p3() + p4();",
	"function u(a, b) { local t; t = 10 / 2 + a; return t * (3 - 1) + b; } function v(a, b) { local t; t = 10 / 2 + a; return t * (3 - 1) + b; } return u(1, 2) == v(1, 2);",
	`x = {1: "i", "1": "s", 1.0: "f"}; hv(string(x)); return string(x);`,
	`x = {"a": 1, "a": 2}; hv(x); return x["a"];`,
	`r = ""; foreach k, v in {1: "i", "1": "s"} { r = r + v; hv(k, v); } return r;`,
	`x = {"b": 1, "a": 2, "c": 3, "d": 4}; hv(keys(x)); foreach k, v in x { hv(k, v); } return sprintf("%v", x);`,
	`x = {1: 1, "1": 2, true: 3, "true": 4}; hv(keys(x)); return len(x);`,
	`function f(a) { return {"z": a, "y": a + 1}; } function g(a) { return keys(f(a)); } hv(g(1)); return string(f(2));`,
	`hv(M); hv(keys(M)); foreach k, v in M { hv(k, v); } return string(M);`,
	`x = {2: "int", 2.0: "float", "2": "str"}; foreach k, v in x { hv(type(k), v); } return string(keys(x));`,
	`x = {"k": {"n": 1, "m": 2}, "j": {"m": 1, "n": 2}}; hv(x); return x["k"] == x["j"];`,
	`x = {"a": hv2(1), "b": hv2(2), "c": hv2(3)}; return string(x);`,
	`x = {hv2(1): "p", hv2(2): "q"}; return string(x);`,
	`x = {"1": "s", 1: "i"}; y = keys(x); hv(y[0], y[1]); return type(y[0]) + type(y[1]);`,
	`function a() { return 1; } function b() { return 2; } function c() { return 3; } function d() { return 4; } return a() + b() + c() + d();`,
	`x = {1.5: "a", "1.5": "b"}; hv(string(x)); return sprintf("%v|%v", x, keys(x));`,
	`x = {false: 0, "false": 1, 0: 2, "0": 3}; t = ""; foreach k, v in x { t = t + string(v); } hv(t); return t;`,
	`x = {hv2({1: 1, 2: 2, 3: 3}): 1, hv2({1: 1, 2: 2, 3: 4}): 2}; return len(x);`,
	`function f(h) { return len(h); } x = {f({"a": 1, "b": 2, "c": 3}): hv2("p"), f({"a": 1, "b": 2, "d": 4}): hv2("q"), f({"z": 1}): hv2("r")}; return string(x);`,
	`x = [{"b": hv2(1), "a": hv2(2)}, {"d": {"y": hv2(3), "x": hv2(4)}, "c": hv2(5)}]; return string(x);`,
	`return {"b": 1, "a": 2, "c": [{"z": 1, "y": 2}, {"x": {"q": 1, "p": 2}}], "1": "s", 1: "i"};`,
	`x = {"k2": M, "k1": [M, {"n": 2, "m": 1}]}; hv(x); return x;`,
	`return [replace(S, "[", "-"), replace(S, "(", "x"), match(S, "["), S ~= /l+/];`,
	`function a() { return 2 - 10; } function b() { return 300 * 300; } function c() { return 1 - 70000; } function d() { return 65534 + 5; } function e() { return 0 - 1; } return a() + b() + c() + d() + e() + (3 - 9);`,
	`hv($A, A, $S, S, $Name, Name); return string($A) + string(Name);`,
	`function f1() { return 1; } function f2() { return 2; } function f3() { return 3; } function g1() { return f1(); } hv(f1() + f2()); return f9() + g7();`,
	`hv(Retries, Label, Ratio, Next, M); return string(Retries) + string(Label) + string(M);`,
	`x = 1 + 2 * 3; y = 1 == 1; if (2 > 1) { z = "a" + "b"; } function k() { return 10 / 5 + 1; } return k() + x;`,
	`hv(id, Id, ID, url, URL, a, A, items, s, b); return string(id) + string(url) + string(iD);`,
	`hv(M["key"], M["KEY"], M.key, keys(M)); foreach k, v in M { hv(k, v); } return len(M);`,
	`x = {10: "ten", 2: "two", "1a": "str", 3.5: "f", "3.5": "s"}; hv(keys(x)); foreach k, v in x { hv(k); } return string(x);`,
	`x = {2: "b", 10: "a", "10": "c", "2": "d", 1: "e"}; hv(string(x)); return keys(x);`,
}

func (p *c19) Enumerate(tier string) [][]int32 {
	var out [][]int32
	for i := range c19Corpus {
		for opt := 0; opt < 2; opt++ {
			for ob := 0; ob < 5; ob++ {
				out = append(out, []int32{1, int32(i), int32(opt), int32(ob)})
			}
		}
	}
	for i := range c19AliasScripts {
		for opt := 0; opt < 2; opt++ {
			out = append(out, []int32{10, int32(i), int32(opt)})
		}
	}
	// the shipped driver on every corpus script, in separate processes
	for i := range c19Corpus {
		out = append(out, []int32{7, 0, int32(i), int32(i % 2), int32(i % 2)})
	}
	return out
}

func (p *c19) RandomRuns(tier string) int {
	if tier == "thorough" {
		return 600000
	}
	return 20000
}

type c19Case struct {
	text  string
	opt   bool
	objs  []func() interface{}
	descs []string
	init  int
	names []string
	debug bool
}

type c19Obs struct {
	cost    int64 // ticks of all runs
	prepErr string
	dump1   string
	results []string
	traces  []string
	vars    []string
	dump2   string
	prep2   string
	after   string
	traceA  string
	prep3   string
	dump3   string
	prepOut string   // what the library printed during Prepare
	outs    []string // … and during each run (print(), diagnostics)
}

// c19PtrObj has pointer members: whatever the engine makes of them must not
// depend on where they were allocated.
type c19PtrObj struct {
	A, B, C int
	S       string
	Items   []int
	Retries *int
	Label   *string
	Ratio   *float64
	Next    *c19PtrObj
	M       map[string]interface{}
	// members whose only printable form would be an address
	Ch    chan int
	Fn    func()
	Raw   unsafe.Pointer
	Slots [2]*int
	Any   interface{}
	Small int8
	Wide  uint16
}

// c19Object returns a constructor: every execution of a case builds its own
// (equal, but separately allocated) objects.
func c19Object(c *verifsim.Chooser) (func() interface{}, string) {
	switch c.Intn(6) {
	case 0:
		return func() interface{} { return nil }, "nil"
	case 5:
		return func() interface{} {
			n, l, r := 3, "lbl", 0.5
			pad := make([]byte, 64) // move the allocation around a little
			_ = pad
			k := 7
			return &c19PtrObj{A: 1, B: 2, C: 3, S: "hall", Items: []int{2, 1}, Retries: &n, Label: &l, Ratio: &r, Next: &c19PtrObj{A: 9}, M: map[string]interface{}{"p": &n, "q": 1},
				Ch: make(chan int), Fn: func() {}, Raw: unsafe.Pointer(&k), Slots: [2]*int{&k, &n}, Any: &k, Small: 3, Wide: 9}
		}, "struct with pointer members"
	}
	ob, d := c19ObjectValue(c)
	return func() interface{} { return ob }, d
}

func c19ObjectValue(c *verifsim.Chooser) (interface{}, string) {
	switch 1 + c.Intn(5) {
	case 5:
		// two maps that refer to each other, each reachable under two
		// top-level keys: what a conversion that visits every value once
		// makes of them must not depend on which key it meets first
		// (reflect's MapRange is outside the map-order seam; the native
		// repetitions and the cross-process runs decide) - C19-w15a
		x := map[string]interface{}{"n": 1}
		y := map[string]interface{}{"n": 2, "peer": x}
		x["peer"] = y
		return map[string]interface{}{"A": x, "B": y, "M": x, "S": y, "C": 3, "Items": []interface{}{x, y}}, "map with two mutually referring maps"
	case 1:
		m := map[string]interface{}{"A": 2, "B": 1, "C": 3, "S": "hall", "Items": []interface{}{3, 1, 2},
			"M": map[string]interface{}{"b": 1, "a": "x", "c": []interface{}{1, "z"}, "d": map[string]interface{}{"y": 1, "x": 2}}}
		return m, "map with nested maps"
	case 2:
		return Obj{A: 1, B: 2, C: 0, S: "ab", Items: []int{1, 2}, M: map[string]interface{}{"k": "v", "n": 2, "z": 3.5, "1": true}}, "struct with map field"
	case 3:
		// keys that differ only in case, and keys that differ only by type
		// once printed: whichever lookup is not exact must not depend on
		// the order the keys come out of a Go map
		return map[string]interface{}{"$A": "dollar-A", "$S": "dollar-S", "$Name": "dollar", "Name": "plain", " A": "space-A", "A ": "A-space", "ID": 1, "Id": 2, "iD": 3, "URL": "upper", "Url": "mixed", "a": 10, "A": 20, "items": []interface{}{1}, "Items": []interface{}{1, 2},
			"M": map[string]interface{}{"Key": 1, "KEY": 2, "key": 3, "kEy": 4}, "S": "x", "s": "y", "B": 1, "b": 2, "C": 3}, "map with case-variant keys"
	default:
		return map[string]interface{}{"M": map[string]interface{}{"1": "s", "one": 1}, "A": 1.0, "B": 2.0, "C": 3.0, "S": "héllo", "Items": []interface{}{1.0, 2.0}}, "json-shaped"
	}
}

func (p *c19) execute(cs *c19Case, pol *verifsim.OrderPolicy) *c19Obs {
	stillAlive()
	verifsim.SetMapPolicy(pol)
	defer verifsim.SetMapPolicy(&verifsim.OrderPolicy{Kind: verifsim.OrdAsc})
	ob := &c19Obs{}
	ctx := verifsim.NewSimContext(-1)
	ctx.HardCap = 8000
	h := newHost(ctx)
	e := evalfilter.New(cs.text)
	h.install(e)
	e.AddFunction("hv2", func(args []object.Object) object.Object {
		h.enter("hv2", args)
		if len(args) > 0 {
			return args[0]
		}
		return &object.Null{}
	})
	e.SetContext(ctx)
	h.Maybe = []bool{true, false, false, true}
	if cs.init == 1 {
		e.SetVariable("g3", &object.Hash{Pairs: map[object.HashKey]object.HashPair{
			(&object.String{Value: "1"}).HashKey():  {Key: &object.String{Value: "1"}, Value: &object.String{Value: "s"}},
			(&object.Integer{Value: 1}).HashKey():   {Key: &object.Integer{Value: 1}, Value: &object.String{Value: "i"}},
			(&object.String{Value: "zz"}).HashKey(): {Key: &object.String{Value: "zz"}, Value: &object.Integer{Value: 3}},
		}})
		e.SetVariable("g0", &object.Integer{Value: 1})
		e.SetVariable("g1", &object.Integer{Value: 2})
	}
	if cs.debug {
		// the library's own diagnostics (what `evalfilter run -debug` shows)
		e.SetVariable("DEBUG", &object.Boolean{Value: true})
	}
	verifsim.TakeStdout()
	err, esc := doPrepare(e, cs.opt)
	ob.prepOut = verifsim.TakeStdout()
	if err != nil || esc != nil {
		ob.prepErr = fmt.Sprint(err, esc)
		return ob
	}
	d, _, _ := doDump(e)
	ob.dump1 = normDump(d)
	for _, mk := range cs.objs {
		o := mk()
		ctx.Rearm(-1)
		ctx.HardCap = 8000
		h.Trace = h.Trace[:0]
		h.nMaybe = 0
		var r Result
		verifsim.TakeStdout()
		under(ctx, func() { r = doExecute(e, o) })
		ob.outs = append(ob.outs, verifsim.TakeStdout())
		ob.results = append(ob.results, r.String())
		ob.traces = append(ob.traces, joinTrace(h.Trace))
		ob.cost += ctx.Ticks
	}
	ob.vars = showVars(e, cs.names)
	// second Prepare of the same evaluator
	err, esc = doPrepare(e, cs.opt)
	ob.prep2 = fmt.Sprint(err, esc)
	if err == nil && esc == nil {
		d, _, _ = doDump(e)
		ob.dump2 = normDump(d)
		ctx.Rearm(-1)
		ctx.HardCap = 8000
		h.Trace = h.Trace[:0]
		h.nMaybe = 0
		var o interface{}
		if len(cs.objs) > 0 {
			o = cs.objs[0]()
		}
		var r Result
		under(ctx, func() { r = doExecute(e, o) })
		ob.after = r.String()
		ob.traceA = joinTrace(h.Trace)
	}
	// another text in between (the exported Script field is the documented
	// way to change the filter of an existing evaluator): text -> other ->
	// text must give the program of the first Prepare again
	pool := scriptPool()
	other := pool[(len(cs.text)*31+len(cs.names))%len(pool)]
	e.Script = other
	doPrepare(e, cs.opt)
	e.Script = cs.text
	err, esc = doPrepare(e, cs.opt)
	ob.prep3 = fmt.Sprint(err, esc)
	if err == nil && esc == nil {
		d, _, _ = doDump(e)
		ob.dump3 = normDump(d)
	}
	return ob
}

// diff names the first observable in which two executions differ.
func (a *c19Obs) diff(b *c19Obs) (string, string) {
	if a.prepErr != b.prepErr {
		return "prepare-error", fmt.Sprintf("%q vs %q", a.prepErr, b.prepErr)
	}
	if a.dump1 != b.dump1 {
		m0, c0, f0 := dumpSections(a.dump1)
		m1, c1, f1 := dumpSections(b.dump1)
		what := "program"
		switch {
		case c0 != c1:
			what = "program:constants"
		case m0 != m1:
			what = "program:main"
		case f0 != f1:
			what = "program:functions"
		}
		return what, firstDiff(a.dump1, b.dump1)
	}
	if a.prepOut != b.prepOut {
		return "printed-during-prepare", firstDiff(a.prepOut, b.prepOut)
	}
	for i := range a.results {
		if i < len(b.outs) && i < len(a.outs) && a.outs[i] != b.outs[i] {
			return "printed-output", fmt.Sprintf("run %d: %s", i, firstDiff(a.outs[i], b.outs[i]))
		}
		if i < len(b.results) && a.results[i] != b.results[i] {
			return "result", fmt.Sprintf("run %d: %s vs %s", i, a.results[i], b.results[i])
		}
		if i < len(b.traces) && a.traces[i] != b.traces[i] {
			return "host-trace", fmt.Sprintf("run %d: [%s] vs [%s]", i, a.traces[i], b.traces[i])
		}
	}
	for i := range a.vars {
		if a.vars[i] != b.vars[i] {
			return "variable", fmt.Sprintf("%s vs %s", a.vars[i], b.vars[i])
		}
	}
	if a.prep2 != b.prep2 || a.dump2 != b.dump2 {
		return "program-after-second-prepare", firstDiff(a.dump2, b.dump2)
	}
	if a.after != b.after {
		return "result-after-second-prepare", fmt.Sprintf("%s vs %s", a.after, b.after)
	}
	if a.traceA != b.traceA {
		return "host-trace-after-second-prepare", fmt.Sprintf("[%s] vs [%s]", a.traceA, b.traceA)
	}
	if a.prep3 != b.prep3 || a.dump3 != b.dump3 {
		return "program-after-another-script", firstDiff(a.dump3, b.dump3)
	}
	return "", ""
}

func polName(p *verifsim.OrderPolicy) string {
	if p == nil {
		return "native"
	}
	n := []string{"ascending", "descending", "rotate", "shuffle", "permutation"}[p.Kind]
	if p.Kind == verifsim.OrdRotate || p.Kind == verifsim.OrdPerm {
		n += fmt.Sprintf("(%d)", p.Param)
	}
	if p.Kind == verifsim.OrdShuffle {
		n += fmt.Sprintf("(seed %d)", p.Seed)
	}
	if p.OnlySite != "" {
		n += " only at " + p.OnlySite
	}
	return n
}

func siteFunc(site string) string {
	// "vm/vm.go:New:133" -> "vm/vm.go:New"
	if i := strings.LastIndex(site, ":"); i > 0 {
		return site[:i]
	}
	return site
}

// scripts with mistakes involving reserved words, several mistakes at once,
// and the lexer / parser edge table of C08 (the text of an error is a result)
var c19Erroneous = append([]string{
	"function f() { local for; }", "foreach k, if in [1] { x = 1; }", "local while;", "function function() { }", "x = return;", "foreach in in in { }",
	"function a(x) { return x; } function b(x) { return x; } return a() + b(1, 2);", "return nosuch(1) + alsonot(2);", "x = ; y = ); z = ];",
	"switch (1) { case case { } }", "if (else) { }", "return true false;", "function f(a, a) { return a; } return f(1);",
}, c08LexEdges...)

// crossProcess runs the shipped driver (plain build of cmd/evalfilter, no
// seam at all) several times on the same script and document: separate
// processes have separate map-iteration seeds and address-space layouts, and
// must print the same bytes.
func (p *c19) crossProcess(c *verifsim.Chooser, st *Stats, render bool) *Outcome {
	o := &Outcome{}
	bin := os.Getenv("VERIF_DRIVER_REAL")
	if bin == "" {
		o.violate("C19/harness", "no-driver", "VERIF_DRIVER_REAL is not set")
		return o
	}
	var text string
	if k := c.Intn(4); k == 3 {
		// text that does not prepare: the error message is a result too
		text = c19Erroneous[c.Intn(len(c19Erroneous))]
	} else if k == 0 {
		text = c19Corpus[c.Intn(len(c19Corpus))]
	} else {
		text = GenScript(c, GenCfg{Funcs: true, Hashes: true, TieKeys: true, Prints: true, MaxStmts: 7}).Text
	}
	// host functions do not exist in the driver: use built-ins instead
	text = strings.NewReplacer("hv2(", "string(", "hv(", "print(", "h(", "string(", "maybe()", "true").Replace(text)
	doc := []string{
		`{"A":2,"B":1,"C":3,"S":"hall","Items":[3,1,2],"M":{"b":1,"a":"x","c":[1,"z"],"d":{"y":1,"x":2},"1":true,"one":1}}`,
		`{"ID":1,"Id":2,"iD":3,"URL":"upper","Url":"mixed","a":10,"A":20,"M":{"Key":1,"KEY":2,"key":3},"S":"x","s":"y","B":1,"b":2,"C":3,"Items":[1,2]}`,
	}[c.Intn(2)]
	noOpt := c.Intn(2) == 1
	setDesc("cross-process driver determinism")
	o.Digest.Str("xproc" + text + doc)
	dir, err := os.MkdirTemp(os.Getenv("VERIF_TMP"), "c19-")
	if err != nil {
		o.violate("C19/harness", "tmpdir", "%v", err)
		return o
	}
	defer os.RemoveAll(dir)
	os.WriteFile(filepath.Join(dir, "s.in"), []byte(text), 0o644)
	os.WriteFile(filepath.Join(dir, "d.json"), []byte(doc), 0o644)
	runDrv := func(args ...string) string {
		cmd := childCommand(bin, args...)
		cmd.Dir = dir
		done := make(chan []byte, 1)
		go func() { b, _ := cmd.CombinedOutput(); done <- b }()
		select {
		case b := <-done:
			return string(b)
		case <-time.After(20 * time.Second):
			if cmd.Process != nil {
				cmd.Process.Kill()
			}
			return "<driver did not finish>"
		}
	}
	bcArgs := []string{"bytecode"}
	runArgs := []string{"run", "-timeout", "2s", "-json", "d.json"}
	if noOpt {
		bcArgs = append(bcArgs, "-no-optimizer")
		runArgs = append(runArgs, "-no-optimizer")
	}
	bcArgs = append(bcArgs, "s.in")
	runArgs = append(runArgs, "s.in")
	o.Nontrivial = true
	st.fault("fresh-process-pairs")
	var bc0, run0 string
	for i := 0; i < 3; i++ {
		stillAlive()
		bc, rn := runDrv(bcArgs...), runDrv(runArgs...)
		if strings.Contains(bc+rn, "<driver did not finish>") {
			// (a saturated machine, or a script that loops: nothing to compare)
			st.probe("cross-process-run-did-not-finish-in-20s")
			return o
		}
		if i == 0 {
			bc0, run0 = bc, rn
			if render {
				o.Sample = map[string]interface{}{"mode": "shipped driver in separate processes", "script": text, "json": doc, "bytecode_args": bcArgs, "run_args": runArgs, "run_output": clip(rn, 400)}
			}
			continue
		}
		if bc != bc0 {
			o.violate("C19/cross-process", "bytecode-output", "`evalfilter %s` printed different programs in two processes:\n%s", strings.Join(bcArgs, " "), firstDiff(bc0, bc))
			break
		}
		if rn != run0 && !strings.Contains(rn+run0, "timeout") {
			o.violate("C19/cross-process", "run-output", "`evalfilter %s` printed different output in two processes:\n%s", strings.Join(runArgs, " "), firstDiff(run0, rn))
			break
		}
	}
	return o
}

// Aliasing inside the host object.  Whether two members of the object are
// the same Go map (or slice) or two equal ones is a fact about the host's
// memory, not about the data: a script must see the same thing either way.
var c19AliasScripts = []string{
	`n = 0; foreach k, v in M { foreach k2, v2 in N { n++; } } return n;`,
	`foreach k, v in M { hv(k); if (k == "b") { foreach j, w in N { hv(j); } } } return string(M) == string(N);`,
	`x = M; y = N; n = 0; foreach a in keys(x) { foreach b in keys(y) { n = n + 1; } } hv(string(x)); return n;`,
	`n = 0; foreach i, v in L { foreach j, w in K { n = n + v * w; } } return n;`,
	`foreach k, v in M { foreach k2, v2 in M { hv(k + k2); } } return len(M);`,
	`return [len(M), len(N), len(M.d), len(N.d), M.d == N.d, string(M.d)];`,
}

func c19AliasObject(shared bool) interface{} {
	inner := func() map[string]interface{} { return map[string]interface{}{"y": 1, "x": 2} }
	mk := func() map[string]interface{} {
		return map[string]interface{}{"b": 1, "a": "x", "c": 3, "d": inner()}
	}
	list := func() []interface{} { return []interface{}{1, 2, 3} }
	m, l := mk(), list()
	if shared {
		return map[string]interface{}{"M": m, "N": m, "L": l, "K": l}
	}
	return map[string]interface{}{"M": m, "N": mk(), "L": l, "K": list()}
}

func (p *c19) aliasing(c *verifsim.Chooser, st *Stats, render bool) *Outcome {
	o := &Outcome{}
	text := c19AliasScripts[c.Intn(len(c19AliasScripts))]
	opt := c.Intn(2) == 0
	setDesc("aliasing inside the host object")
	o.Digest.Str("alias" + text)
	o.Nontrivial = true
	st.fault("aliased-host-values")
	var obs [2]*c19Obs
	for i, shared := range []bool{false, true} {
		shared := shared
		cs := &c19Case{text: text, opt: opt, objs: []func() interface{}{func() interface{} { return c19AliasObject(shared) }, func() interface{} { return c19AliasObject(shared) }}, names: []string{"n", "x", "y"}}
		obs[i] = p.execute(cs, &verifsim.OrderPolicy{Kind: verifsim.OrdAsc})
	}
	if render {
		o.Sample = map[string]interface{}{"mode": "aliasing inside the host object", "script": text, "two equal maps": obs[0].results, "one map twice": obs[1].results}
	}
	if what, det := obs[0].diff(obs[1]); what != "" {
		o.violate("C19/alias-dependent", what, "the %s differs between an object whose members M and N (L and K) are two equal maps (slices) and one in which they are the same map (slice): %s\nscript: %s", what, det, text)
	}
	return o
}

func (p *c19) Run(c *verifsim.Chooser, st *Stats, render bool) *Outcome {
	o := &Outcome{}
	cs := &c19Case{}
	mode := []int{0, 1, 0, 0, 0, 0, 0, 2, 0, 0, 3}[c.Intn(11)]
	if mode == 2 {
		return p.crossProcess(c, st, render)
	}
	if mode == 3 {
		return p.aliasing(c, st, render)
	}
	if mode == 1 {
		cs.text = c19Corpus[c.Intn(len(c19Corpus))]
		cs.opt = c.Intn(2) == 0
		for i := c.Intn(5); i >= 0; i-- {
			ob, d := c19Object(verifsim.NewReplay([]int32{int32(i + 1), int32(i)}))
			cs.objs = append(cs.objs, ob)
			cs.descs = append(cs.descs, d)
		}
		g, _ := analyseNames(cs.text)
		cs.names = g
	} else {
		sc := GenScript(c, GenCfg{Funcs: true, Faults: false, Hashes: true, TieKeys: true, Prints: true, MaxStmts: 7})
		cs.text = sc.Text
		cs.names = sc.Globals
		if c.Intn(5) == 1 {
			pool := scriptPool()
			cs.text = pool[c.Intn(len(pool))]
			if extra := len(c08Builtins) - len(c08KnownBuiltins); extra > 0 && c.Bool() {
				// built-ins the pinned tree does not have come last in the pool's
				// built-in section: half of the pool draws go to them
				var mine []string
				for _, t := range pool {
					for _, b := range c08Builtins[len(c08KnownBuiltins):] {
						if strings.HasPrefix(t, "x = "+b+"(") {
							mine = append(mine, t)
						}
					}
				}
				if len(mine) > 0 {
					cs.text = mine[c.Intn(len(mine))]
				}
			}
			cs.names, _ = analyseNames(cs.text)
		}
		cs.opt = c.Intn(2) == 0
		cs.init = c.Intn(2)
		n := 1 + c.Intn(3)
		for i := 0; i < n; i++ {
			ob, d := c19Object(c)
			if c.Intn(5) == 1 {
				// an object kind from another property's workload, rebuilt for
				// every execution from the same choices
				tr := []int32{int32(c.Intn(4)), int32(c.Intn(60)), int32(c.Intn(6)), int32(c.Intn(5)), int32(c.Intn(4))}
				ob = func() interface{} { o, _ := objectPool(verifsim.NewReplay(tr)); return o }
				_, d = objectPool(verifsim.NewReplay(tr))
			}
			cs.objs = append(cs.objs, ob)
			cs.descs = append(cs.descs, d)
		}
	}
	cs.debug = mode == 0 && c.Intn(6) == 1
	setDesc("map-order case: " + clip(strings.ReplaceAll(cs.text, "\n", " "), 160))
	seedA, seedB := uint64(c.Intn(1<<30)), uint64(c.Intn(1<<30))+7

	ref := p.execute(cs, &verifsim.OrderPolicy{Kind: verifsim.OrdAsc})
	o.Digest.Str(cs.text)
	o.Digest.Str(ref.prepErr + ref.dump1 + strings.Join(ref.results, "|") + strings.Join(ref.traces, "|") + strings.Join(ref.vars, "|") + ref.dump2 + ref.after)
	if render {
		o.Sample = map[string]interface{}{"script": cs.text, "optimizer": cs.opt, "objects": cs.descs, "results": ref.results, "host_traces": ref.traces,
			"variables": ref.vars, "result_after_second_prepare": ref.after,
			"orders_compared": "ascending (reference), ascending again, descending, rotate 1/2, 2 seeded per-call shuffles, permutations 1..23, native x2"}
	}
	if ref.prepErr != "" {
		st.probe("prepare-failed")
		return o
	}

	// the second Prepare must give the program the first one gave
	if ref.prep2 != "<nil> <nil>" {
		o.violate("C19/second-prepare", "fails", "Prepare succeeded the first time and failed the second time on the same evaluator: %s", ref.prep2)
	} else if ref.prep3 == ref.prep2 && ref.dump3 != ref.dump1 {
		o.violate("C19/second-prepare", "program-differs-after-another-script", "the same text, prepared again after another script had been prepared on the same evaluator in between, gives another program:\n%s", firstDiff(ref.dump1, ref.dump3))
	} else if ref.dump2 != ref.dump1 {
		o.violate("C19/second-prepare", "program-differs", "the program after a second Prepare of the same evaluator differs from the first:\n%s", firstDiff(ref.dump1, ref.dump2))
	}

	// the same text prepared with the other optimizer setting in between
	// (anything shared between evaluators of one process must not be changed
	// by that), then the same order again on a fresh evaluator: everything is
	// at other addresses
	flipped := *cs
	flipped.opt = !cs.opt
	p.execute(&flipped, &verifsim.OrderPolicy{Kind: verifsim.OrdAsc})
	again := p.execute(cs, &verifsim.OrderPolicy{Kind: verifsim.OrdAsc})
	if what, det := ref.diff(again); what != "" {
		o.violate("C19/unstable", what, "two executions under the same map order differ (addresses? hidden global state?): %s", det)
		return o
	}

	if !p.seamProbe {
		// is the clock seam alive?  now() is the one place where the pinned
		// library reads the wall clock: it must follow the policy
		p.seamProbe = true
		probe := &c19Case{text: "return now();", opt: true, objs: []func() interface{}{func() interface{} { return nil }}}
		a := p.execute(probe, &verifsim.OrderPolicy{Kind: verifsim.OrdAsc})
		verifsim.SetTimePolicy(time.Hour)
		b := p.execute(probe, &verifsim.OrderPolicy{Kind: verifsim.OrdAsc})
		verifsim.SetTimePolicy(0)
		if len(a.results) == 1 && len(b.results) == 1 && a.results[0] != b.results[0] {
			st.probe("clock-seam-alive(now() follows the simulated clock)")
		} else {
			st.probe("clock-seam-not-observable(now() did not follow the simulated clock)")
		}
	}
	// the same order under other wall clocks: the reference ran with a clock
	// that stands still between instructions; now every reading of the clock
	// by the library jumps it ahead (3 ms, then 1 s per reading)
	for _, jump := range []time.Duration{3 * time.Millisecond, time.Second} {
		verifsim.SetTimePolicy(jump)
		obs := p.execute(cs, &verifsim.OrderPolicy{Kind: verifsim.OrdAsc})
		verifsim.SetTimePolicy(0)
		if what, det := ref.diff(obs); what != "" {
			st.fault("clock-jumps")
			o.violate("C19/clock-dependent", what, "with a wall clock that jumps %v ahead at every reading the %s differs from the one under a clock that stands still: %s", jump, what, det)
			return o
		}
	}
	if verifsim.NowCalls > p.nowSeen {
		p.nowSeen = verifsim.NowCalls
		st.fault("clock-jumps")
	}

	var pols []*verifsim.OrderPolicy
	pols = append(pols, &verifsim.OrderPolicy{Kind: verifsim.OrdDesc},
		&verifsim.OrderPolicy{Kind: verifsim.OrdRotate, Param: 1}, &verifsim.OrderPolicy{Kind: verifsim.OrdRotate, Param: 2},
		&verifsim.OrderPolicy{Kind: verifsim.OrdShuffle, Seed: seedA}, &verifsim.OrderPolicy{Kind: verifsim.OrdShuffle, Seed: seedB})
	for k := 1; k < 24; k++ {
		pols = append(pols, &verifsim.OrderPolicy{Kind: verifsim.OrdPerm, Param: k, Seed: seedA})
	}
	if ref.cost > 4000 {
		// a long-running case: two alternative orders instead of twenty-eight
		pols = pols[:1]
		pols = append(pols, &verifsim.OrderPolicy{Kind: verifsim.OrdShuffle, Seed: seedA})
		st.probe("long-case-few-orders")
	}
	sitesHit := 0
	for _, pol := range pols {
		obs := p.execute(cs, pol)
		for _, n := range pol.Sites {
			if n > 0 {
				sitesHit++
				break
			}
		}
		what, det := ref.diff(obs)
		if what == "" {
			continue
		}
		// attribute to a single map-range site if one suffices
		site := "several-sites"
		var names []string
		for s := range pol.Sites {
			names = append(names, s)
		}
		sortStrings(names)
		for _, s := range names {
			single := *pol
			single.OnlySite = s
			single.Sites = nil
			if w, _ := ref.diff(p.execute(cs, &single)); w != "" {
				site = siteFunc(s)
				break
			}
		}
		o.violate("C19/order-dependent", site+" obs="+what, "under map order %q the %s differs from the ascending order: %s", polName(pol), what, det)
		break
	}
	if sitesHit > 0 {
		o.Nontrivial = true
		st.fault("map-order-varied")
	}
	// Go's own randomised order (guards sites the rewriter did not see)
	if len(o.V) == 0 {
		for i := 0; i < 4; i++ {
			obs := p.execute(cs, nil)
			if what, det := ref.diff(obs); what != "" {
				o.violate("C19/native-divergence", what, "under Go's native map order the %s differs from the ascending order (a map-range site outside the seam?): %s", what, det)
				break
			}
		}
		st.fault("native-order-runs")
	}
	return o
}

func sortStrings(s []string) {
	for i := 1; i < len(s); i++ {
		for j := i; j > 0 && s[j] < s[j-1]; j-- {
			s[j], s[j-1] = s[j-1], s[j]
		}
	}
}
