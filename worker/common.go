package main

import (
	"fmt"
	"os/exec"
	"reflect"
	"regexp"
	"runtime/debug"
	"sort"
	"strings"
	"syscall"
	"time"

	evalfilter "github.com/skx/evalfilter/v2"
	"github.com/skx/evalfilter/v2/object"
	"github.com/skx/evalfilter/v2/verifsim"
)

// Violation is one failed oracle.
type Violation struct {
	Class  string `json:"class"`
	Sig    string `json:"signature"`
	Detail string `json:"detail"`
}

// Outcome is what one simulated run reports.
type Outcome struct {
	Digest     verifsim.Digest
	Nontrivial bool
	Ticks      int64
	V          []Violation
	Sample     interface{} // human-readable rendering, only when asked for
	// Poisoned: the process must not run further cases (e.g. a deadlock left
	// parked goroutines holding locks); the worker reports and exits 4.
	Poisoned bool
}

func (o *Outcome) violate(class, sig, format string, a ...interface{}) {
	o.V = append(o.V, Violation{Class: class, Sig: sig, Detail: fmt.Sprintf(format, a...)})
}

// Stats accumulates counters over the runs of one worker.
type Stats struct {
	Faults map[string]int64 `json:"faults"`
	Probes map[string]int64 `json:"probes"`
	Max    map[string]int64 `json:"max"`
}

func newStats() *Stats {
	return &Stats{Faults: map[string]int64{}, Probes: map[string]int64{}, Max: map[string]int64{}}
}
func (s *Stats) fault(k string)           { s.Faults[k]++ }
func (s *Stats) probe(k string)           { s.Probes[k]++ }
func (s *Stats) probeN(k string, n int64) { s.Probes[k] += n }
func (s *Stats) max(k string, v int64) {
	if v > s.Max[k] {
		s.Max[k] = v
	}
}

// Prop is one property's simulation.
type Prop interface {
	ID() string
	// Enumerate returns explicit choice traces (the exhaustive part).
	Enumerate(tier string) [][]int32
	// RandomRuns is the number of seeded random runs for the tier.
	RandomRuns(tier string) int
	// Run executes one simulated run.
	Run(c *verifsim.Chooser, st *Stats, render bool) *Outcome
}

// ---------------------------------------------------------------------
// Host side: functions the "application" registers, with a fault plan.
// ---------------------------------------------------------------------

type sentinel struct{ what string }

// Host is the simulated host application of one evaluator.
type Host struct {
	Trace  []string
	Ctx    *verifsim.SimContext
	Maybe  []bool
	nMaybe int
	BoomAt int // boom() call number that panics (1-based), 0 = never
	nBoom  int
	NilAt  int // hnil() call number that returns a nil object, 0 = never
	nNil   int
	Calls  int
	Fired  map[string]int
	// C09 runaway protection
	CallsAfterCancel int
	Runaway          bool
	RunawayBudget    int
	TotalBudget      int
	CancelAtCall     int // cancel the context from inside host call number N (1-based), 0 = never
	PanicAtCall      int // panic inside host call number N (1-based, any host function), 0 = never
	OnFault          func()
	SlowTicks        int64
	InHost           bool
	CancelledInHost  bool
}

func show(o object.Object) (s string) {
	defer func() {
		if r := recover(); r != nil {
			s = fmt.Sprintf("<panic in printed form: %v>", r)
		}
	}()
	if o == nil {
		return "<nil>"
	}
	// (printing is the harness's own act: a value with millions of paths - a
	// few dozen arrays each holding the next one twice - is not printed)
	budget := 200000
	if !printable(o, &budget, 0) {
		return string(o.Type()) + ":<too large or too deeply nested to print>"
	}
	return string(o.Type()) + ":" + o.Inspect()
}

// printable walks a value as printing would and gives up when the budget is
// spent or the nesting is deep (printing copies the text of every level into
// the level above: the cost is quadratic in the depth).
func printable(o object.Object, budget *int, depth int) bool {
	*budget--
	if *budget < 0 || depth > 3000 {
		return false
	}
	switch v := o.(type) {
	case *object.Array:
		for _, e := range v.Elements {
			if e != nil && !printable(e, budget, depth+1) {
				return false
			}
		}
	case *object.Hash:
		for _, p := range v.Pairs {
			if p.Key != nil && !printable(p.Key, budget, depth+1) {
				return false
			}
			if p.Value != nil && !printable(p.Value, budget, depth+1) {
				return false
			}
		}
	}
	return true
}

func (h *Host) enter(name string, args []object.Object) {
	h.Calls++
	verifsim.Yield(verifsim.YHost, h.Calls)
	if h.Ctx != nil {
		h.InHost = true
		if h.CancelAtCall > 0 && h.Calls == h.CancelAtCall && !h.Ctx.Fired() {
			h.Ctx.Cancel()
			h.CancelledInHost = true
		}
		// a host call is one unit of simulated time too, so a planned
		// cancellation fires even if nobody polls the context
		h.Ctx.Advance(1 + h.SlowTicks)
		if h.Ctx.Fired() {
			h.CallsAfterCancel++
			if h.RunawayBudget > 0 && h.CallsAfterCancel > h.RunawayBudget {
				h.Runaway = true
				panic(sentinel{"runaway"})
			}
		}
		if h.TotalBudget > 0 && h.Calls > h.TotalBudget {
			h.Runaway = true
			panic(sentinel{"runaway-total"})
		}
		h.InHost = false
	}
	if h.PanicAtCall > 0 && h.Calls == h.PanicAtCall {
		if h.OnFault != nil {
			h.OnFault()
		}
		h.Fired["host-panic"]++
		panic("boom from host function")
	}
	var sb strings.Builder
	sb.WriteString(name)
	sb.WriteByte('(')
	for i, a := range args {
		if i > 0 {
			sb.WriteString(", ")
		}
		sb.WriteString(show(a))
	}
	sb.WriteByte(')')
	h.Trace = append(h.Trace, sb.String())
}

func (h *Host) install(e *evalfilter.Eval) {
	e.AddFunction("h", func(args []object.Object) object.Object {
		h.enter("h", args)
		if len(args) > 0 {
			return args[0]
		}
		return &object.Null{}
	})
	e.AddFunction("hv", func(args []object.Object) object.Object {
		h.enter("hv", args)
		return &object.Void{}
	})
	e.AddFunction("tick", func(args []object.Object) object.Object {
		h.enter("tick", args)
		return &object.Void{}
	})
	e.AddFunction("maybe", func(args []object.Object) object.Object {
		v := false
		if len(h.Maybe) > 0 {
			v = h.Maybe[h.nMaybe%len(h.Maybe)]
		}
		h.nMaybe++
		return &object.Boolean{Value: v}
	})
	e.AddFunction("boom", func(args []object.Object) object.Object {
		h.enter("boom", args)
		h.nBoom++
		if h.BoomAt > 0 && h.nBoom == h.BoomAt {
			if h.OnFault != nil {
				h.OnFault()
			}
			h.Fired["host-panic"]++
			panic("boom from host function")
		}
		return &object.Integer{Value: 1}
	})
	e.AddFunction("hv2", func(args []object.Object) object.Object {
		h.enter("hv2", args)
		if len(args) > 0 {
			return args[0]
		}
		return &object.Null{}
	})
	e.AddFunction("emit", func(args []object.Object) object.Object {
		h.enter("emit", args)
		return &object.Void{}
	})
	e.AddFunction("hf", func(args []object.Object) object.Object {
		h.enter("hf", args)
		return &object.Integer{Value: 1}
	})
	e.AddFunction("hnil", func(args []object.Object) object.Object {
		h.enter("hnil", args)
		h.nNil++
		if h.NilAt > 0 && h.nNil == h.NilAt {
			if h.OnFault != nil {
				h.OnFault()
			}
			h.Fired["host-nil"]++
			return nil
		}
		return &object.Integer{Value: 0}
	})
}

func newHost(ctx *verifsim.SimContext) *Host {
	return &Host{Ctx: ctx, Fired: map[string]int{}}
}

// ---------------------------------------------------------------------
// Guarded API calls.
// ---------------------------------------------------------------------

// Escaped describes a panic that crossed the API boundary.
type Escaped struct {
	Entry string
	Value string
	Frame string
}

func innermostLibFrame(stack string) string {
	lines := strings.Split(stack, "\n")
	for _, l := range lines {
		l = strings.TrimSpace(l)
		if strings.HasPrefix(l, "github.com/skx/evalfilter/v2") && !strings.Contains(l, "/verifsim.") {
			if i := strings.LastIndex(l, "("); i > 0 {
				l = l[:i]
			}
			return strings.TrimPrefix(l, "github.com/skx/evalfilter/v2")
		}
	}
	return "?"
}

func guard(entry string, esc **Escaped, f func()) {
	defer func() {
		if r := recover(); r != nil {
			if s, ok := r.(sentinel); ok {
				*esc = &Escaped{Entry: entry, Value: "sentinel:" + s.what, Frame: "harness"}
				return
			}
			*esc = &Escaped{Entry: entry, Value: fmt.Sprint(r), Frame: innermostLibFrame(string(debug.Stack()))}
		}
	}()
	f()
}

// Result of one guarded Execute/Run.
type Result struct {
	Out     string // printed form of the result ("" if error)
	Truth   bool
	Err     string
	Failed  bool
	Escaped *Escaped
}

func (r Result) String() string {
	if r.Escaped != nil {
		return "PANIC(" + r.Escaped.Value + ")"
	}
	if r.Failed {
		return "error(" + r.Err + ")"
	}
	return r.Out
}

func doExecute(e *evalfilter.Eval, obj interface{}) Result {
	var r Result
	guard("Execute", &r.Escaped, func() {
		out, err := e.Execute(obj)
		if err != nil {
			r.Failed, r.Err = true, err.Error()
			return
		}
		r.Out = show(out)
		if out != nil {
			r.Truth = out.True()
		}
	})
	return r
}

func doRun(e *evalfilter.Eval, obj interface{}) Result {
	var r Result
	guard("Run", &r.Escaped, func() {
		ok, err := e.Run(obj)
		if err != nil {
			r.Failed, r.Err = true, err.Error()
			return
		}
		r.Truth = ok
		r.Out = fmt.Sprintf("truth:%v", ok)
	})
	return r
}

func doPrepare(e *evalfilter.Eval, optimize bool) (err error, esc *Escaped) {
	guard("Prepare", &esc, func() {
		if optimize {
			err = e.Prepare()
		} else {
			err = e.Prepare([]byte{evalfilter.NoOptimize})
		}
	})
	return
}

// under runs f with ctx receiving the simulated clock's ticks.
func under(ctx *verifsim.SimContext, f func()) {
	if ctx == nil {
		f()
		return
	}
	ctx.Do(f)
}

// doDump returns the text Dump() prints.
func doDump(e *evalfilter.Eval) (text string, err error, esc *Escaped) {
	verifsim.CaptureStdout()
	guard("Dump", &esc, func() { err = e.Dump() })
	text = verifsim.TakeStdout()
	return
}

// normDump sorts the function listing of a Dump by function name, so the
// order in which Dump lists functions is not part of what is compared.
func normDump(text string) string {
	const marker = "\nUser-defined functions:\n"
	i := strings.Index(text, marker)
	if i < 0 {
		return text
	}
	head, tail := text[:i+len(marker)], text[i+len(marker):]
	var blocks []string
	cur := ""
	for _, l := range strings.Split(tail, "\n") {
		if strings.HasPrefix(l, " function ") {
			if cur != "" {
				blocks = append(blocks, cur)
			}
			cur = l + "\n"
		} else if strings.TrimSpace(l) != "" {
			cur += l + "\n"
		}
	}
	if cur != "" {
		blocks = append(blocks, cur)
	}
	sort.Strings(blocks)
	return head + strings.Join(blocks, "\n")
}

// dumpSections splits a normalised dump into its three parts.
func dumpSections(text string) (main, consts, funcs string) {
	ci := strings.Index(text, "\n\nConstant Pool:\n")
	fi := strings.Index(text, "\nUser-defined functions:\n")
	end := len(text)
	if fi >= 0 {
		funcs = text[fi:]
		end = fi
	}
	if ci >= 0 && ci <= end {
		consts = text[ci:end]
		end = ci
	}
	main = text[:end]
	return
}

// ---------------------------------------------------------------------
// Values: deep copy preserving aliasing, snapshots.
// ---------------------------------------------------------------------

type copier struct {
	seen map[object.Object]object.Object
}

func (cp *copier) copy(o object.Object) object.Object {
	if o == nil {
		return nil
	}
	if c, ok := cp.seen[o]; ok {
		return c
	}
	var out object.Object
	switch v := o.(type) {
	case *object.Integer:
		out = &object.Integer{Value: v.Value}
	case *object.Float:
		out = &object.Float{Value: v.Value}
	case *object.String:
		out = &object.String{Value: v.Value}
	case *object.Boolean:
		out = &object.Boolean{Value: v.Value}
	case *object.Null:
		out = &object.Null{}
	case *object.Void:
		out = &object.Void{}
	case *object.Regexp:
		out = &object.Regexp{Value: v.Value}
	case *object.Array:
		a := &object.Array{Elements: make([]object.Object, len(v.Elements))}
		cp.seen[o] = a
		for i, e := range v.Elements {
			a.Elements[i] = cp.copy(e)
		}
		return a
	case *object.Hash:
		hh := &object.Hash{Pairs: make(map[object.HashKey]object.HashPair, len(v.Pairs))}
		cp.seen[o] = hh
		for k, p := range v.Pairs {
			hh.Pairs[k] = object.HashPair{Key: cp.copy(p.Key), Value: cp.copy(p.Value)}
		}
		return hh
	default:
		out = o
	}
	cp.seen[o] = out
	return out
}

// Snapshot is the visible variable store of an evaluator.
type Snapshot struct {
	Names []string
	Vals  []object.Object
}

func takeSnapshot(e *evalfilter.Eval, names []string) Snapshot {
	cp := &copier{seen: map[object.Object]object.Object{}}
	s := Snapshot{}
	// a variable that exists with a null value still shadows a field of the
	// object: tell it from a variable that does not exist (GetVariable cannot)
	exists := map[string]bool{}
	known := false
	if gl, ok := e.VerifGlobalNames(); ok {
		known = true
		for _, n := range gl {
			exists[n] = true
		}
		// every variable the evaluator holds belongs to the snapshot, not
		// only the ones the analysis of the script text found (after the
		// script was edited, variables of the old text are still there)
		have := map[string]bool{}
		for _, n := range names {
			have[n] = true
		}
		extra := []string{}
		for _, n := range gl {
			if !have[n] && n != "OPTIMIZE" && n != "DEBUG" {
				extra = append(extra, n)
			}
		}
		sort.Strings(extra)
		names = append(append([]string{}, names...), extra...)
	}
	for _, n := range names {
		v := e.GetVariable(n)
		if v == nil {
			continue
		}
		if v.Type() == object.NULL && !(known && exists[n]) {
			continue
		}
		s.Names = append(s.Names, n)
		s.Vals = append(s.Vals, cp.copy(v))
	}
	return s
}

func (s Snapshot) giveTo(e *evalfilter.Eval) {
	cp := &copier{seen: map[object.Object]object.Object{}}
	for i, n := range s.Names {
		e.SetVariable(n, cp.copy(s.Vals[i]))
	}
}

func (s Snapshot) String() string {
	var parts []string
	for i, n := range s.Names {
		parts = append(parts, n+"="+show(s.Vals[i]))
	}
	return strings.Join(parts, " ")
}

func showVars(e *evalfilter.Eval, names []string) []string {
	out := make([]string, len(names))
	for i, n := range names {
		out[i] = show(e.GetVariable(n))
	}
	return out
}

// ---------------------------------------------------------------------
// Host objects.
// ---------------------------------------------------------------------

// Obj is the ordinary host object of the generated scripts.
type Obj struct {
	A, B, C int
	S       string
	Items   []int
	M       map[string]interface{}
	F       float64
	T       bool
}

// scriptPool is every hand-written script of every property's corpus that
// ends by itself: what one property's workload needs, the others' oracles get
// to see as well.
var scriptPoolCache []string

func scriptPool() []string {
	if scriptPoolCache != nil {
		return scriptPoolCache
	}
	var out []string
	for _, s := range c07Corpus {
		// (the deep-recursion and deep-map scripts cost tens of thousands of
		// instructions per run: they stay in C07's own enumeration)
		if !strings.Contains(s, "deep(") && !strings.Contains(s, "down(") && !strings.Contains(s, "string(M)") {
			out = append(out, s)
		}
	}
	out = append(out, c19Corpus...)
	out = append(out, c20DrvScripts...)
	out = append(out, c08FieldScripts...)
	for _, f := range c11Families {
		out = append(out, f.script("", 3), "zz = 1 / (C + 1); "+f.script("(?:Z7){0}", 8))
	}
	for _, s := range c09Catalogue() {
		if strings.HasPrefix(s.Family, "term-") {
			out = append(out, s.Text)
		}
	}
	for i, b := range c08Builtins {
		out = append(out, fmt.Sprintf("x = %s(%s); hv(x); return x;", b, c08BuiltinArgs[(i*5)%len(c08BuiltinArgs)]))
		if i >= len(c08KnownBuiltins) {
			// a built-in the pinned tree does not have: nobody knows what it
			// takes, so it gets every kind of argument
			for _, a := range append(append([]string{}, c08BuiltinArgs...), `{"a": 0.1, "b": 0.2, "c": 0.3}`, `{"a": 0.1, "b": 0.7, "c": 0.2, "d": 100000000.5, "e": 3}`, `[0.1, 0.2, 0.3, 100000000.5]`, `{1: "x", "1": "y", 2.5: [1, 2]}`, `"héllo wörld", 3`, `Items`, `M`, `S, 2`) {
				out = append(out, fmt.Sprintf("x = %s(%s); hv(string(x)); return x;", b, a))
			}
		}
	}
	for _, e := range c08LexEdges {
		if strings.Contains(e, ";") {
			out = append(out, e)
		}
	}
	scriptPoolCache = out
	return out
}

var oddObjectsCache []oddObj

// objectPool is every kind of host object any property's workload uses.
func objectPool(c *verifsim.Chooser) (interface{}, string) {
	switch c.Intn(4) {
	case 0:
		if oddObjectsCache == nil {
			oddObjectsCache = oddObjects() // (the engine only reads host objects)
		}
		objs := oddObjectsCache
		o := objs[c.Intn(len(objs))]
		if strings.Contains(o.name, "deep") || strings.HasPrefix(o.name, "forty ") {
			// (objects that only the tables of C08 pair with scripts that can
			// afford them: printing a value with 2^40 paths never ends)
			return nil, "nil"
		}
		return o.v, "odd:" + o.name
	case 1:
		mk, d := c19Object(c)
		return mk(), "c19:" + d
	case 2:
		i := c.Intn(len(c07Objs) - 3) // (not the three with very deep maps)
		return c07Objs[i], fmt.Sprintf("c07 object #%d", i)
	default:
		return genObject(c)
	}
}

// genObject draws a host object (0 = nil).
func genObject(c *verifsim.Chooser) (interface{}, string) {
	kind := c.Intn(6)
	if kind == 0 {
		return nil, "nil"
	}
	if kind == 5 {
		// same type name, different types
		i := c.Intn(4)
		return []func() interface{}{c07Anon1, c07Anon2, c07Local1, c07Local2}[i](), fmt.Sprintf("same-named type #%d", i)
	}
	o := Obj{
		A: []int{1, 0, 2, 3, 7}[c.Intn(5)],
		B: []int{1, 0, 2}[c.Intn(3)],
		C: []int{5, 0, -1}[c.Intn(3)],
		S: []string{"ab", "", "héllo", "hall"}[c.Intn(4)],
	}
	switch c.Intn(4) {
	case 1:
		o.Items = []int{1}
	case 2:
		o.Items = []int{3, 1, 2}
	case 3:
		o.Items = []int{1, 2, 3, 4, 5}
	}
	switch c.Intn(3) {
	case 1:
		o.M = map[string]interface{}{"k": 1}
	case 2:
		o.M = map[string]interface{}{"k": "v", "n": 2, "z": []interface{}{1, "x"}}
	}
	desc := fmt.Sprintf("%+v", o)
	switch kind {
	case 1:
		return o, "struct" + desc
	case 2:
		return &o, "&struct" + desc
	case 3:
		m := map[string]interface{}{"A": o.A, "B": o.B, "C": o.C, "S": o.S}
		items := make([]interface{}, len(o.Items))
		for i, v := range o.Items {
			items[i] = v
		}
		m["Items"] = items
		if o.M != nil {
			m["M"] = o.M
		}
		return m, "map" + desc
	default:
		// JSON-shaped: numbers are float64
		m := map[string]interface{}{"A": float64(o.A), "B": float64(o.B), "C": float64(o.C), "S": o.S}
		items := make([]interface{}, len(o.Items))
		for i, v := range o.Items {
			items[i] = float64(v)
		}
		m["Items"] = items
		return m, "json" + desc
	}
}

var (
	reParams  = regexp.MustCompile(`function\s+\w+\s*\(([^)]*)\)`)
	reLocal   = regexp.MustCompile(`local\s+(\w+)`)
	reForeach = regexp.MustCompile(`foreach\s+(\w+)(?:\s*,\s*(\w+))?\s+in\b`)
	reAssign  = regexp.MustCompile(`(?:^|[^\w"])([A-Za-z_]\w*)\s*(?:=[^=]|\+\+|--|\+=|-=|\*=|/=)`)
)

// analyseNames classifies the identifiers a script writes: names that only
// ever live in a local scope (parameters, locals, loop variables) and names
// that are global.
func analyseNames(text string) (globals, scoped []string) {
	sc := map[string]bool{}
	for _, m := range reParams.FindAllStringSubmatch(text, -1) {
		for _, p := range strings.Split(m[1], ",") {
			if p = strings.TrimSpace(p); p != "" {
				sc[p] = true
			}
		}
	}
	for _, m := range reLocal.FindAllStringSubmatch(text, -1) {
		sc[m[1]] = true
	}
	for _, m := range reForeach.FindAllStringSubmatch(text, -1) {
		sc[m[1]] = true
		if m[2] != "" {
			sc[m[2]] = true
		}
	}
	gl := map[string]bool{}
	for _, m := range reAssign.FindAllStringSubmatch(text, -1) {
		if !sc[m[1]] && m[1] != "local" {
			gl[m[1]] = true
		}
	}
	// a name that is scoped in one place but assigned in the main body
	// (outside every function definition) is a global as well
	main := stripFunctionDefs(text)
	for _, m := range reAssign.FindAllStringSubmatch(main, -1) {
		if sc[m[1]] {
			gl[m[1]] = true
			delete(sc, m[1])
		}
	}
	for k := range gl {
		globals = append(globals, k)
	}
	for k := range sc {
		scoped = append(scoped, k)
	}
	sort.Strings(globals)
	sort.Strings(scoped)
	return
}

// stripFunctionDefs removes `function name(...) { ... }` blocks.
func stripFunctionDefs(text string) string {
	var out strings.Builder
	for {
		i := strings.Index(text, "function ")
		if i < 0 {
			out.WriteString(text)
			return out.String()
		}
		out.WriteString(text[:i])
		j := strings.Index(text[i:], "{")
		if j < 0 {
			return out.String()
		}
		depth, k := 0, i+j
		for ; k < len(text); k++ {
			if text[k] == '{' {
				depth++
			} else if text[k] == '}' {
				depth--
				if depth == 0 {
					k++
					break
				}
			}
		}
		text = text[k:]
	}
}

// footprint adds up the lengths of every slice and map reachable from v
// (through pointers, interfaces, structs, slice elements and map values; by
// reflection, unexported fields included).  It is a measure of how much an
// evaluator is holding on to: it must not grow with the number of runs.
func footprint(root interface{}) int64 {
	seen := map[uintptr]bool{}
	var walk func(v reflect.Value, depth int) int64
	walk = func(v reflect.Value, depth int) int64 {
		if depth > 14 || !v.IsValid() {
			return 0
		}
		switch v.Kind() {
		case reflect.Ptr:
			if v.IsNil() || seen[v.Pointer()] {
				return 0
			}
			seen[v.Pointer()] = true
			return walk(v.Elem(), depth+1)
		case reflect.Interface:
			if v.IsNil() {
				return 0
			}
			return walk(v.Elem(), depth+1)
		case reflect.Struct:
			var t int64
			for i := 0; i < v.NumField(); i++ {
				t += walk(v.Field(i), depth+1)
			}
			return t
		case reflect.Slice:
			if v.IsNil() {
				return 0
			}
			t := int64(v.Len())
			switch v.Type().Elem().Kind() {
			case reflect.Ptr, reflect.Interface, reflect.Struct, reflect.Slice, reflect.Map:
				for i := 0; i < v.Len() && i < 256; i++ {
					t += walk(v.Index(i), depth+1)
				}
			}
			return t
		case reflect.Map:
			if v.IsNil() {
				return 0
			}
			t := int64(v.Len())
			switch v.Type().Elem().Kind() {
			case reflect.Ptr, reflect.Interface, reflect.Struct, reflect.Slice, reflect.Map:
				it := v.MapRange()
				for n := 0; it.Next() && n < 256; n++ {
					t += walk(it.Value(), depth+1)
				}
			}
			return t
		}
		return 0
	}
	return walk(reflect.ValueOf(root), 0)
}

func joinTrace(t []string) string { return strings.Join(t, ";") }

// childCommand is exec.Command for a process that must not outlive this
// worker: the kernel kills it when the worker goes (a worker that the
// watchdog or the coordinator removes would otherwise leave a spinning driver
// behind, which then slows every later check down).
func childCommand(name string, args ...string) *exec.Cmd {
	cmd := exec.Command(name, args...)
	cmd.SysProcAttr = &syscall.SysProcAttr{Pdeathsig: syscall.SIGKILL}
	return cmd
}

// editedScript returns a variant of text, as a host produces when its user
// edits a filter and the host assigns the new text to the exported Script
// field of the evaluator it already has, then calls Prepare again.
func editedScript(c *verifsim.Chooser, text string) (string, string) {
	lines := strings.Split(text, "\n")
	switch c.Intn(9) {
	case 7:
		// text that parses but that the compiler rejects - after it has
		// compiled (and pooled the constants of) everything before it
		return text + "\n" + []string{"3 += 2;", "\"late\" -= 1;", "g0 = 1; 4 *= g0;"}[c.Intn(3)] + "\n", "a statement the compiler rejects appended"
	case 8:
		return []string{"a = \"one\"; b = 2.5; 3 += 2;", "return 1 +;", "", "function f( {"}[c.Intn(4)], "text that does not prepare"
	case 0:
		// one line less (not a line that opens or closes a block)
		var cand []int
		for i, l := range lines {
			t := strings.TrimSpace(l)
			if t != "" && !strings.ContainsAny(t, "{}") {
				cand = append(cand, i)
			}
		}
		if len(cand) > 0 {
			i := cand[c.Intn(len(cand))]
			return strings.Join(append(append([]string{}, lines[:i]...), lines[i+1:]...), "\n"), "one line removed"
		}
	case 1:
		return GenScript(c, GenCfg{Funcs: true, Faults: true, Hashes: true, MaxStmts: 6}).Text, "another generated script"
	case 2:
		pool := scriptPool()
		return pool[c.Intn(len(pool))], "a script of the pool"
	case 3:
		return "g0 = 77;\n" + text, "a statement added in front"
	case 4:
		return text, "unchanged"
	case 5:
		// another constant
		for i := 0; i < len(text); i++ {
			if text[i] >= '1' && text[i] <= '8' && (i == 0 || text[i-1] == ' ' || text[i-1] == '(') {
				return text[:i] + string(text[i]+1) + text[i+1:], "a constant changed"
			}
		}
	}
	// (an integer: generated scripts double g1 in loops, which is harmless for
	// numbers and exponential for strings)
	return text + "\ng1 = 77;\n", "a statement appended"
}

// Methods of *evalfilter.Eval that the pinned tree does not have (a change may
// add API): found by reflection, classified by signature, and exercised where
// a check can do so without knowing what they mean.
var (
	apiKnown = map[string]bool{"AddFunction": true, "Dump": true, "Execute": true, "GetVariable": true, "Prepare": true, "Run": true,
		"SetContext": true, "SetVariable": true, "VerifScopes": true, "VerifStack": true, "VerifGlobalNames": true, "VerifFunctionNames": true}
	apiDurationSetters, apiNullary, apiCloners, apiOther []string
)

func init() {
	t := reflect.TypeOf(evalfilter.New("return 1;"))
	durT := reflect.TypeOf(time.Duration(0))
	for i := 0; i < t.NumMethod(); i++ {
		m := t.Method(i)
		if apiKnown[m.Name] {
			continue
		}
		ft := m.Type // (receiver is the first parameter)
		switch {
		case ft.NumIn() == 2 && ft.In(1) == durT && ft.NumOut() <= 1:
			apiDurationSetters = append(apiDurationSetters, m.Name)
		case ft.NumIn() == 1 && ft.NumOut() >= 1 && ft.Out(0) == t:
			apiCloners = append(apiCloners, m.Name)
		case ft.NumIn() == 1 && ft.NumOut() <= 1 && (ft.NumOut() == 0 || ft.Out(0).String() == "error"):
			apiNullary = append(apiNullary, m.Name)
		default:
			apiOther = append(apiOther, m.Name)
		}
	}
}

// apiCall calls a discovered method by name; a panic is returned as text.
func apiCall(e *evalfilter.Eval, name string, args ...interface{}) (out []reflect.Value, panicked string) {
	defer func() {
		if r := recover(); r != nil {
			panicked = fmt.Sprint(r)
		}
	}()
	in := make([]reflect.Value, len(args))
	for i, a := range args {
		in[i] = reflect.ValueOf(a)
	}
	return reflect.ValueOf(e).MethodByName(name).Call(in), ""
}
