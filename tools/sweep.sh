#!/bin/sh
# usage: tools/sweep.sh [id-glob]  : re-run the quick check of its property against every recorded seeded change
# (scratch worktree per change, removed afterwards) and print one line per change: caught / MISSED / does-not-apply.
# Nothing under /verif/seeded is modified; the table goes to stdout.
pat=${1:-*}
base=$(cd "$(dirname "$0")/.." && pwd)   # (works from a snapshot of /verif too)
export GOFLAGS=-mod=mod GOPROXY=off GOSUMDB=off GOTOOLCHAIN=local
for d in $base/seeded/$pat/; do
  id=$(basename "$d"); prop=${id%%-*}
  [ -f "$d/patch.diff" ] || continue
  w=$(mktemp -d /tmp/sweep-XXXXXX)
  git -C /repo worktree add -q --detach "$w/wt" HEAD || { echo "$id worktree-failed"; continue; }
  if ! git -C "$w/wt" apply "$d/patch.diff" 2>/dev/null && ! git -C "$w/wt" apply --3way "$d/patch.diff" >/dev/null 2>&1; then
    echo "$id does-not-apply"
  elif ! (cd "$w/wt" && go build ./... >/dev/null 2>&1); then
    echo "$id does-not-build"
  else
    "$base/bin/vcheck" "$prop" --repo "$w/wt" > "$w/out.txt" 2>&1; code=$?
    if [ $code -eq 1 ]; then echo "$id caught $(grep -A1 '^VIOLATION' "$w/out.txt" | grep -o 'class=[^ ]*' | sort -u | head -3 | tr '\n' ' ')"
    elif [ $code -eq 0 ]; then echo "$id MISSED"
    else echo "$id trouble(exit $code) $(tail -1 "$w/out.txt" | cut -c1-120)"; fi
  fi
  git -C /repo worktree remove --force "$w/wt" 2>/dev/null; rm -rf "$w"
done
git -C /repo worktree prune
