#!/bin/sh
# usage: tools/trymut.sh <prop> <python-file-that-edits-cwd> [extra vcheck flags]
# Applies a deliberate breakage to a scratch worktree of /repo and runs one check on it.
set -e
prop=$1; edit=$2; shift 2
d=$(mktemp -d /tmp/mut-XXXXXX)
git -C /repo worktree add -q --detach "$d/wt" HEAD
( cd "$d/wt" && python3 "$edit" && git diff --stat | tail -1 && export GOFLAGS=-mod=mod GOPROXY=off GOSUMDB=off GOTOOLCHAIN=local && go build ./... && go test -vet=off -count=1 ./... 2>&1 | grep -v "^ok\|no test files" | head -5 || true )
cd /verif
set +e
./bin/vcheck "$prop" --repo "$d/wt" "$@" > "$d/out.txt" 2>&1
code=$?
grep -c "^VIOLATION" "$d/out.txt" | sed 's/^/violation lines: /'
grep -A1 "^VIOLATION" "$d/out.txt" | grep "class=" | sed 's/occurrences.*//' | sort | uniq -c | sort -rn | head -8
tail -1 "$d/out.txt" | cut -c1-300
echo "exit=$code"
git -C /repo worktree remove --force "$d/wt"
rm -rf "$d"
