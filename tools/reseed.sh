#!/bin/sh
# usage: tools/reseed.sh <seed id> <property> ["history note"] : re-run the check against a recorded seeded change
# and update check_output.txt / meta.json (caught, check_result; the note is appended to meta.history)
id=$1; prop=$2; note=$3
dst=/verif/seeded/$id
out=$(/verif/tools/seedcheck.sh "$dst" "$prop" 2>&1)
echo "$out" > "$dst/check_output.txt"
python3 - "$dst/meta.json" "$note" <<'PY'
import json,sys,re
dst,note=sys.argv[1:3]
m=json.load(open(dst))
out=open(dst.replace('meta.json','check_output.txt')).read()
was=m.get("caught")
m["check_result"]={"exit":int(re.search(r"exit=(\d+)",out).group(1)) if re.search(r"exit=(\d+)",out) else None,"classes":sorted(set(re.findall(r"class=(\S+) signature=([^\n]*?)\s*$",out,re.M)))[:12]}
m["caught"]= m["check_result"]["exit"]==1
if note:
    m.setdefault("history",[]).append(("first run of the check: %s; "%("caught" if was else "missed") if "history" not in m or not m["history"] else "")+note)
json.dump(m,open(dst,'w'),indent=1)
print(m["id"], "caught" if m["caught"] else "MISSED", m["check_result"]["classes"][:3])
PY
