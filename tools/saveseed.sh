#!/bin/sh
# usage: tools/saveseed.sh <agent out dir> <seed id> <property> : confirm a seeded change and record it under /verif/seeded/<id>/
src=$1; id=$2; prop=$3
dst=/verif/seeded/$id
mkdir -p "$dst"
cp "$src/patch.diff" "$dst/"
[ -f "$src/demo_test.go" ] && cp "$src/demo_test.go" "$dst/"
[ -f "$src/demo.sh" ] && cp "$src/demo.sh" "$dst/"
out=$(/verif/tools/seedcheck.sh "$src" "$prop" 2>&1)
echo "$out" > "$dst/check_output.txt"
python3 - "$src/meta.json" "$dst/meta.json" "$id" "$prop" <<'PY'
import json,sys,re
src,dst,id_,prop=sys.argv[1:5]
try: m=json.load(open(src))
except Exception as e: m={"summary":"(agent meta unreadable: %s)"%e}
out=open(dst.replace('meta.json','check_output.txt')).read()
m2={"id":id_,"property":prop,"summary":m.get("summary"),"needs":m.get("needs"),"demo_cmd":m.get("demo_cmd"),"agent_verified":m.get("verified"),
 "confirmed":{"suite_passes_with_change":"suite: pass" in out,"demo_fails_with_change":"demo with change: fails (expected)" in out,"demo_passes_without_change":"demo without change: passes (expected)" in out,
   "how":"tools/seedcheck.sh: scratch worktree of /repo HEAD, git apply patch.diff, go build, go test -vet=off -count=1 ./..., demo run with and without the patch (go test -race -run 'Demo|C..'), then ./bin/vcheck %s --repo <worktree>"%prop},
 "check_result":{"exit":int(re.search(r"exit=(\d+)",out).group(1)) if re.search(r"exit=(\d+)",out) else None,"classes":sorted(set(re.findall(r"class=(\S+) signature=([^\n]*?)\s*$",out,re.M)))[:12]}}
m2["caught"]= m2["check_result"]["exit"]==1
json.dump(m2,open(dst,'w'),indent=1)
print(id_, "caught" if m2["caught"] else "MISSED", m2["confirmed"])
PY
