#!/bin/sh
# usage: tools/seedcheck.sh <dir containing patch.diff + demo> <property> [more properties...]
# Confirms a seeded change (applies, builds, suite passes, demo fails with / passes without),
# then runs the named checks against the changed tree.  All work in a scratch worktree.
src=$1; shift
export GOFLAGS=-mod=mod GOPROXY=off GOSUMDB=off GOTOOLCHAIN=local
d=$(mktemp -d /tmp/seed-XXXXXX)
git -C /repo worktree add -q --detach "$d/wt" HEAD || exit 2
cd "$d/wt"
if ! git apply "$src/patch.diff" 2>/dev/null; then
  # HEAD has moved since the change was written (fix: commits): merge it
  if git apply --3way "$src/patch.diff" >/dev/null 2>&1 && ! git diff --name-only --diff-filter=U | grep -q .; then
    echo "(patch applied by 3-way merge: HEAD has moved since it was written)"
    git diff HEAD > "$d/merged.diff"; git reset -q; src_patch="$d/merged.diff"
  else
    echo "PATCH DOES NOT APPLY"; cd /; git -C /repo worktree remove --force "$d/wt"; rm -rf "$d"; exit 2
  fi
fi
src_patch=${src_patch:-$src/patch.diff}
go build ./... 2>&1 | head -3
suite=$(go test -vet=off -count=1 ./... 2>&1 | grep -v "^ok\|no test files" | head -3)
[ -z "$suite" ] && echo "suite: pass" || echo "suite: FAIL $suite"
demo=""
if [ -f "$src/demo_test.go" ]; then
  cp "$src/demo_test.go" ./zz_demo_test.go
  if go test -race -vet=off -count=1 -run 'Demo|C[0-9][0-9]' . >/tmp/seed-demo.out 2>&1; then echo "demo with change: PASSES (unexpected)"; else echo "demo with change: fails (expected)"; fi
  git apply -R "$src_patch"
  cp "$src/demo_test.go" ./zz_demo_test.go
  if go test -race -vet=off -count=1 -run 'Demo|C[0-9][0-9]' . >/tmp/seed-demo0.out 2>&1; then echo "demo without change: passes (expected)"; else echo "demo without change: FAILS (unexpected)"; tail -5 /tmp/seed-demo0.out; fi
  rm -f zz_demo_test.go
  git apply "$src_patch"
elif [ -f "$src/demo.sh" ]; then
  echo "(demo.sh present: run by hand)"
fi
cd /verif
for p in "$@"; do
  ./bin/vcheck "$p" --repo "$d/wt" > "$d/out-$p.txt" 2>&1
  code=$?
  echo "== $p exit=$code  $(grep -c '^VIOLATION' "$d/out-$p.txt") violation line(s)"
  grep -A1 "^VIOLATION" "$d/out-$p.txt" | grep "class=" | sed 's/occurrences.*//' | sort | uniq -c | sort -rn | head -5
  tail -1 "$d/out-$p.txt" | cut -c1-220
done
git -C /repo worktree remove --force "$d/wt"
rm -rf "$d"
