//go:build go1.21

package verifsim

import "unsafe"

// Pool has the API of sync.Pool and is what library code gets when it says
// sync.Pool.  It recycles deterministically (last in, first out, nothing is
// ever dropped, no per-P caches), so a pooled object that is still in use
// somewhere reaches its next user in every run that can show it.  The hand-over
// of an item from Put to Get carries the same happens-before edge a real
// sync.Pool gives (and nothing more), so the race detector neither misses
// unsynchronised reuse nor reports correct reuse.
type Pool struct {
	New   func() any
	items []any
}

//go:norace
func (p *Pool) Put(x any) {
	if x == nil {
		return
	}
	poolRelease(poolAddr(x))
	p.items = append(p.items, x)
}

//go:norace
func (p *Pool) Get() any {
	if n := len(p.items); n > 0 {
		x := p.items[n-1]
		p.items[n-1] = nil
		p.items = p.items[:n-1]
		poolAcquire(poolAddr(x))
		return x
	}
	if p.New != nil {
		return p.New()
	}
	return nil
}

// poolAddr is the address the race annotations use for an item: the data
// word of the interface (as sync.Pool does).
//
//go:norace
func poolAddr(x any) unsafe.Pointer {
	return (*[2]unsafe.Pointer)(unsafe.Pointer(&x))[1]
}
