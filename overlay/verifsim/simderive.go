//go:build go1.21

package verifsim

import (
	"context"
	"time"
)

// Contexts the library derives from the one it was given
// (context.WithCancel / WithTimeout / WithDeadline inside library code are
// redirected here by the rewriter).  A context derived from a simulated
// context is simulated too: it is cancelled, synchronously, at the instant
// its parent is, when its own deadline passes on the simulated clock, or when
// its cancel function is called; the ticks of the code that polls it go to
// the root context (whose clock the cancellation plans are written in).
// Derived from anything else (context.Background(), a host's real context) it
// is the real thing.

// LibWithCancel mirrors context.WithCancel.
func LibWithCancel(parent context.Context) (context.Context, context.CancelFunc) {
	p, ok := parent.(*SimContext)
	if !ok {
		return context.WithCancel(parent)
	}
	c := p.derive()
	return c, func() { c.cancelDerived(context.Canceled) }
}

// LibWithTimeout mirrors context.WithTimeout.
func LibWithTimeout(parent context.Context, d time.Duration) (context.Context, context.CancelFunc) {
	p, ok := parent.(*SimContext)
	if !ok {
		return context.WithTimeout(parent, d)
	}
	c := p.derive()
	c.ownDeadline = peekNow().Add(d)
	c.hasDeadline = true
	if d <= 0 {
		c.cancelDerived(context.DeadlineExceeded)
	} else {
		t := newTimer(d, nil)
		t.internal = func() { c.cancelDerived(context.DeadlineExceeded) }
	}
	return c, func() { c.cancelDerived(context.Canceled) }
}

// LibWithDeadline mirrors context.WithDeadline.
func LibWithDeadline(parent context.Context, t time.Time) (context.Context, context.CancelFunc) {
	if _, ok := parent.(*SimContext); !ok {
		return context.WithDeadline(parent, t)
	}
	return LibWithTimeout(parent, t.Sub(peekNow()))
}

//go:norace
func (p *SimContext) derive() *SimContext {
	DerivedContexts++
	c := &SimContext{done: make(chan struct{}), CancelAt: -1, ownerTask: -1, parent: p}
	p.children = append(p.children, c)
	if p.fired {
		c.cancelDerived(p.err)
	}
	return c
}

//go:norace
func (c *SimContext) cancelDerived(err error) {
	if c.fired {
		return
	}
	c.fired = true
	c.err = err
	close(c.done)
	for _, ch := range c.children {
		ch.cancelDerived(err)
	}
}

// root is the context the harness made (the one that receives the ticks).
//
//go:norace
func (c *SimContext) root() *SimContext {
	for c.parent != nil {
		c = c.parent
	}
	return c
}

// DerivedContexts counts the contexts the library derived (evidence).
var DerivedContexts int64
