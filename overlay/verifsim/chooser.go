//go:build go1.21

// Package verifsim is the simulator runtime that the verification harness in
// /verif injects into the evalfilter module through `go build -overlay`.
// It does not exist in the shipped sources.
//
// Everything a simulated run decides is drawn from one Chooser; the event log
// of a run is folded into one digest.  Nothing here reads a clock or uses a
// global random source.
package verifsim

// Chooser is the single source of choices of one simulated run.
//
// Exploration mode: values come from a splitmix64 stream seeded by the run
// seed, and every value drawn is appended to Trace.  Replay mode: values come
// from a recorded trace, clamped to the bound; an exhausted trace yields 0,
// which every generator treats as its simplest choice.
//
// All methods are //go:norace: in the concurrency simulation the chooser is
// used by whichever task is running, and the hand-over between tasks is
// deliberately invisible to the race detector (see sched.go).
type Chooser struct {
	// Seed0 is the seed an exploring chooser started from.
	Seed0  uint64
	state  uint64
	replay []int32
	rpos   int
	isRep  bool

	// Trace holds the values drawn so far (pre-allocated, never grown by
	// append inside a task; see grow).
	Trace []int32
	N     int
}

// NewChooser returns an exploring chooser.
func NewChooser(seed uint64) *Chooser {
	return &Chooser{Seed0: seed, state: seed, Trace: make([]int32, 4096)}
}

// NewReplay returns a chooser that replays a recorded trace.
func NewReplay(trace []int32) *Chooser {
	return &Chooser{replay: trace, isRep: true, Trace: make([]int32, 4096)}
}

//go:norace
func (c *Chooser) next() uint64 {
	c.state += 0x9e3779b97f4a7c15
	z := c.state
	z = (z ^ (z >> 30)) * 0xbf58476d1ce4e5b9
	z = (z ^ (z >> 27)) * 0x94d049bb133111eb
	return z ^ (z >> 31)
}

// Intn draws a value in [0, n).  n <= 1 returns 0 and records it.
//
//go:norace
func (c *Chooser) Intn(n int) int {
	v := 0
	if c.isRep {
		if c.rpos < len(c.replay) {
			v = int(c.replay[c.rpos])
			c.rpos++
		}
		if v < 0 {
			v = 0
		}
		if n <= 1 {
			v = 0
		} else if v >= n {
			v = n - 1
		}
	} else if n > 1 {
		v = int(c.next() % uint64(n))
	}
	if c.N == len(c.Trace) {
		c.grow()
	}
	c.Trace[c.N] = int32(v)
	c.N++
	return v
}

// grow doubles the trace without runtime.growslice (which is instrumented
// for the race detector).
//
//go:norace
func (c *Chooser) grow() {
	nt := make([]int32, 2*len(c.Trace))
	for i := 0; i < c.N; i++ {
		nt[i] = c.Trace[i]
	}
	c.Trace = nt
}

// Bool draws a boolean; false is the simple choice.
//
//go:norace
func (c *Chooser) Bool() bool { return c.Intn(2) == 1 }

// OneIn is true with probability 1/n; false is the simple choice.
//
//go:norace
func (c *Chooser) OneIn(n int) bool { return c.Intn(n) == 1 && n > 1 }

// ReplayValues returns the trace a replaying chooser was given.
func (c *Chooser) ReplayValues() []int32 { return c.replay }

// IsReplay reports whether the chooser replays a recorded trace.
func (c *Chooser) IsReplay() bool { return c.isRep }

// Adopt replaces the record of values drawn by vals (the choices of a run
// that was executed elsewhere on this chooser's behalf).
func (c *Chooser) Adopt(vals []int32) {
	c.Trace = append([]int32(nil), vals...)
	if len(c.Trace) < 4096 {
		c.Trace = append(c.Trace, make([]int32, 4096-len(c.Trace))...)
	}
	c.N = len(vals)
}

// Values returns a copy of the values drawn so far.
func (c *Chooser) Values() []int32 {
	out := make([]int32, c.N)
	copy(out, c.Trace[:c.N])
	return out
}

// Mix derives a run seed from a base seed, a property tag and an index.
func Mix(base uint64, tag string, i uint64) uint64 {
	h := base ^ 0xcbf29ce484222325
	for _, b := range []byte(tag) {
		h ^= uint64(b)
		h *= 0x100000001b3
	}
	h ^= i * 0x9e3779b97f4a7c15
	h = (h ^ (h >> 30)) * 0xbf58476d1ce4e5b9
	h = (h ^ (h >> 27)) * 0x94d049bb133111eb
	return h ^ (h >> 31)
}

// Digest is a running FNV-1a hash of a run's event log.
type Digest struct{ H uint64 }

//go:norace
func (d *Digest) init() {
	if d.H == 0 {
		d.H = 0xcbf29ce484222325
	}
}

// U64 folds one value in.
//
//go:norace
func (d *Digest) U64(v uint64) {
	d.init()
	for i := 0; i < 8; i++ {
		d.H ^= v & 0xff
		d.H *= 0x100000001b3
		v >>= 8
	}
}

// Str folds a string in.
//
//go:norace
func (d *Digest) Str(s string) {
	d.init()
	for i := 0; i < len(s); i++ {
		d.H ^= uint64(s[i])
		d.H *= 0x100000001b3
	}
	d.H ^= 0xff
	d.H *= 0x100000001b3
}
