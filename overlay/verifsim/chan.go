//go:build go1.21

package verifsim

import "unsafe"

// Channel operations of library code.  The rewriter turns every blocking
// channel operation of the library (send, receive, range over a channel,
// select without default) into these helpers.  Outside a concurrency
// simulation they are the plain operations.  Inside, an operation that cannot
// proceed does not block the goroutine (the scheduler would never learn about
// it): the task polls - it is parked until some other task has made a step and
// then tries again - and if every unfinished task is waiting like that, the
// run is a deadlock.  The operations themselves are the real ones, so the
// race detector sees the happens-before edges channels give.
//
// Exactness: a polled operation succeeds when the real non-blocking operation
// would - buffer space / buffered data / a closed channel.  That is exact for
// buffered channels (semaphores, queues) and for waiting on a channel to be
// closed (context.Done).  It is NOT exact for a rendezvous on an unbuffered
// channel between two polling parties (neither ever blocks in the runtime, so
// neither finds the other), nor in general for select.  A deadlock in which
// such a wait takes part is therefore reported as uncertain, and the checks
// treat it as "the simulator cannot tell", never as a violation.  A task that
// waits to receive from (send on) an unbuffered channel while NO other task
// is waiting to send on (receive from) the same channel is not such a case:
// nobody is there to meet, the wait is as real as the runtime's would be.

// ChanSend is `ch <- v`.
//
//go:norace
func ChanSend[T any](ch chan<- T, v T) {
	s := active
	if s == nil || s.cur < 0 {
		ch <- v
		return
	}
	for {
		s.yield(YChan, 0)
		select {
		case ch <- v:
			s.progress++
			return
		default:
		}
		s.chanWaitOn(cap(ch) > 0, chanID(ch), 1)
	}
}

// chanID is the identity of a channel (the pointer a channel value is).
//
//go:norace
func chanID[C any](ch C) unsafe.Pointer {
	return *(*unsafe.Pointer)(unsafe.Pointer(&ch))
}

// ChanRecv is `<-ch`.
//
//go:norace
func ChanRecv[T any](ch <-chan T) T {
	v, _ := ChanRecv2(ch)
	return v
}

// ChanRecv2 is `v, ok := <-ch`.
//
//go:norace
func ChanRecv2[T any](ch <-chan T) (T, bool) {
	s := active
	if s == nil || s.cur < 0 {
		v, ok := <-ch
		return v, ok
	}
	for {
		s.yield(YChan, 1)
		select {
		case v, ok := <-ch:
			s.progress++
			return v, ok
		default:
		}
		s.chanWaitOn(cap(ch) > 0, chanID(ch), 2)
	}
}

// SelectStart is called before the first attempt of a rewritten blocking
// select.  Whatever the select then does counts as progress (it cannot be
// told from here whether a case was taken; a select that keeps failing ends
// in SelectWait, which takes that back by waiting for somebody else).
//
//go:norace
func SelectStart() {
	if s := active; s != nil && s.cur >= 0 {
		s.yield(YChan, 2)
		s.progress++
	}
}

// SelectWait is the default branch the rewriter adds to a blocking select:
// nothing was ready.  It reports whether the select should be retried
// (always true inside a simulation); outside a simulation it yields the
// processor so that the retry loop is an ordinary polling wait.
//
//go:norace
func SelectWait() {
	if s := active; s != nil && s.cur >= 0 {
		s.chanWait(false)
		s.yield(YChan, 2)
		return
	}
	osyield()
}
