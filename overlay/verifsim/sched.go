//go:build go1.21

package verifsim

import (
	"runtime"
	"sync"
	"syscall"
	"time"
	"unsafe"
)

// Yield kinds (also event kinds in the event log).
const (
	YPoll    = 1 // context polled: once before every VM instruction
	YLock    = 2 // about to acquire a mutex
	YUnlock  = 3 // just released a mutex
	YRLock   = 4
	YRUnlock = 5
	YHost    = 6  // entry of a harness host function
	YOpStart = 7  // client operation about to be invoked
	YOpEnd   = 8  // client operation returned
	YChan    = 14 // about to attempt a channel operation
	YSpawn   = 15 // a goroutine was started (go statement or timer callback of the library)
	YAtomic  = 16 // just after an operation of sync/atomic
	EvSwitch = 9
	EvBlock  = 10
	EvGrant  = 11
	EvDone   = 12
	EvUser   = 13
)

// Scheduling policies.
const (
	PolRTC      = 0 // run to completion in task order, with up to K forced preemptions
	PolUniform  = 1 // uniform random choice at every yield
	PolSticky   = 2 // keep running with probability (P-1)/P
	PolPCT      = 3 // PCT-style priorities with D change points
	PolSync     = 4 // uniform random, but only at synchronisation yields (not polls)
	NumPolicies = 5
)

const maxTasks = 16

// Task is one simulated caller goroutine.
type Task struct {
	gate  uint32
	ID    int
	state int // 0 runnable, 1 blocked on a mutex, 2 done, 4 waiting for a channel operation to become possible
	stamp uint64
	// exact says whether the polled wait models the real operation exactly
	// (buffered channel, condition variable) or only approximately
	// (unbuffered channel, select: a rendezvous between two polling parties
	// never happens)
	exact bool
	// the channel and direction (1 send, 2 receive, 0 unknown: select) of a polled wait
	waitChan unsafe.Pointer
	waitDir  int
	waitOn   unsafe.Pointer
	prio     int
	fn       func()
	lastRun  int  // step at which the task was last chosen to run
	kill     bool // the simulation is over: leave at the next wake-up (runtime.Goexit)
	exited   uint32
}

// Event is one entry of the (bounded) event log of a concurrency run.
type Event struct {
	Kind uint8
	Task int8
	Arg  int32
}

// Sched is the seeded scheduler of one concurrency simulation.  Exactly one
// task runs at a time; every scheduling decision is taken inline by the task
// that yields, drawing from C.
type Sched struct {
	C        *Chooser
	tasks    [maxTasks]*Task
	n        int
	cur      int
	mainGate uint32
	wg       sync.WaitGroup

	Policy  int
	param   int
	preempt [8]int // step numbers at which a preemption / priority change happens
	npre    int

	Steps     int
	Switches  int
	progress  uint64 // bumped by every step of every task: a task polling a channel is retried only after somebody else moved
	ChanWaits int
	StepCap   int
	Aborted   bool // step cap hit: contexts report cancellation from now on

	Deadlock     bool
	DeadlockWait [maxTasks]unsafe.Pointer
	// DeadlockUncertain: some of the deadlocked tasks wait in an operation the
	// polling model only approximates, so the deadlock may be an artefact
	DeadlockUncertain bool

	D      Digest // everything
	SchedD Digest // schedule signature: sync events + poll counts between them
	polls  uint64

	Events  []Event
	NEvents int

	stopped bool
	clients int // tasks added before Run (the callers); later ones were started by the library
	// StopWhen >= 0: the simulation ends as soon as this task is done,
	// whatever the others (goroutines the library started itself) are doing.
	StopWhen int
	Spawned  int
	Starved  int // how often the fairness bound overruled the policy
	Leftover int // tasks that were still alive when the simulation ended

	// Probes
	PreemptAfterUnlock int
	MaxBlocked         int
	lastKind           int
}

// active is the running simulation, nil outside one.
var active *Sched

// Active reports whether a concurrency simulation is running.
//
//go:norace
func Active() bool { return active != nil && active.cur >= 0 }

// CurrentTask returns the id of the running task, -1 outside a simulation.
//
//go:norace
func CurrentTask() int {
	if active == nil {
		return -1
	}
	return active.cur
}

// NewSched prepares a simulation; the policy and its parameters are drawn
// from c (policy first, so that an all-zero trace is run-to-completion).
func NewSched(c *Chooser, stepCap int) *Sched {
	s := &Sched{C: c, cur: -1, StepCap: stepCap, Events: make([]Event, 1<<14), StopWhen: -1}
	s.Policy = c.Intn(NumPolicies)
	switch s.Policy {
	case PolRTC:
		s.npre = c.Intn(4)
		for i := 0; i < s.npre; i++ {
			s.preempt[i] = c.Intn(400)
		}
	case PolSticky:
		s.param = 2 + c.Intn(30)
	case PolPCT:
		s.npre = 1 + c.Intn(3)
		for i := 0; i < s.npre; i++ {
			s.preempt[i] = c.Intn(400)
		}
	}
	return s
}

// Go adds a task.  Must be called before Run.
func (s *Sched) Go(fn func()) int {
	t := &Task{ID: s.n, fn: fn, state: 0}
	if s.Policy == PolPCT {
		t.prio = 100 + s.C.Intn(1000)*maxTasks + t.ID
	}
	s.tasks[s.n] = t
	s.n++
	return t.ID
}

// Run executes all tasks to completion (or deadlock / step cap) under the
// schedule and returns when the simulation is over.
func (s *Sched) Run() {
	if s.n == 0 {
		return
	}
	s.clients = s.n
	for i := 0; i < s.n; i++ {
		t := s.tasks[i]
		s.wg.Add(1)
		go s.body(t)
	}
	active = s
	first := s.pick(false)
	s.setCur(first)
	open(&s.tasks[first].gate)
	wait(&s.mainGate)
	active = nil
	s.clearCur()
	if s.Deadlock || s.stopped {
		// give the tasks that are still parked up, one at a time
		for i := 0; i < s.n; i++ {
			if t := s.tasks[i]; t.state != 2 && load32(&t.exited) == 0 {
				t.kill = true
				open(&t.gate)
				for n := 0; load32(&t.exited) == 0 && n < 200000; n++ {
					runtime.Gosched()
					if n > 1000 {
						time.Sleep(10 * time.Microsecond)
					}
				}
			}
		}
	}
	if !s.Deadlock && !s.stopped {
		// Real happens-before edge from the end of every task to the
		// harness, as a host application's wg.Wait() would give.
		s.wg.Wait()
	}
}

// Go is the go statement of the library (the rewriter redirects it here).
// Inside a simulation the new goroutine becomes a task of the scheduler;
// outside, it is an ordinary goroutine.
//
//go:norace
func Go(fn func()) {
	s := active
	if s == nil || s.cur < 0 {
		go fn()
		return
	}
	s.spawn(fn)
	s.yield(YSpawn, 0)
}

// spawn adds a task while the simulation is running (a slot of a finished
// task is reused; with every slot busy the goroutine runs unscheduled, which
// is reported through Unscheduled).
//
//go:norace
func (s *Sched) spawn(fn func()) {
	slot := -1
	if s.n < maxTasks {
		slot = s.n
		s.n++
	} else {
		for i := 0; i < s.n; i++ {
			if s.tasks[i].state == 2 && i != s.cur {
				slot = i
				break
			}
		}
	}
	if slot < 0 {
		Unscheduled++
		go fn()
		return
	}
	t := &Task{ID: slot, fn: fn, state: 0, lastRun: s.Steps}
	if s.Policy == PolPCT {
		t.prio = 100 + s.C.Intn(1000)*maxTasks + t.ID
	}
	s.tasks[slot] = t
	taskCtx[slot] = taskCtx[s.cur] // the goroutine works for the call that started it
	s.Spawned++
	s.wg.Add(1)
	go s.body(t)
}

// body is the goroutine of one task.
func (s *Sched) body(t *Task) {
	defer s.wg.Done()
	defer store32(&t.exited, 1)
	wait(&t.gate)
	if t.kill {
		return
	}
	defer func() {
		if !t.kill {
			s.finish()
		}
	}()
	t.fn()
}

// Unscheduled counts goroutines of the library that could not be put under
// the scheduler (evidence: must stay 0 for the simulation to be exact).
var Unscheduled int

//go:norace
func (s *Sched) anyRunnable() bool {
	for i := 0; i < s.n; i++ {
		if t := s.tasks[i]; t.state == 0 && i != s.cur {
			return true
		}
	}
	return false
}

//go:norace
func (s *Sched) setCur(i int) { s.cur = i }

//go:norace
func (s *Sched) clearCur() { s.cur = -1 }

//go:norace
func (s *Sched) log(kind int, arg int) {
	s.D.U64(uint64(kind)<<40 | uint64(uint8(s.cur))<<32 | uint64(uint32(arg)))
	if kind == YPoll {
		s.polls++
	} else {
		s.SchedD.U64(s.polls)
		s.SchedD.U64(uint64(kind)<<8 | uint64(uint8(s.cur)))
		s.polls = 0
	}
	if s.NEvents < len(s.Events) {
		s.Events[s.NEvents] = Event{Kind: uint8(kind), Task: int8(s.cur), Arg: int32(arg)}
		s.NEvents++
	}
}

// Note appends a harness event to the log (no scheduling decision).
//
//go:norace
func Note(arg int) {
	if s := active; s != nil && s.cur >= 0 {
		s.log(EvUser, arg)
	}
}

// Yield is a scheduling point of the running task.
//
//go:norace
func Yield(kind int, arg int) {
	s := active
	if s == nil || s.cur < 0 {
		return
	}
	s.yield(kind, arg)
}

//go:norace
func (s *Sched) yield(kind int, arg int) {
	s.Steps++
	if kind != YChan {
		// (a retry of a channel operation is not progress: otherwise two
		// waiting tasks would keep each other awake and starve the task
		// they are waiting for under the priority-based policies)
		s.progress++
	}
	s.log(kind, arg)
	if s.StepCap > 0 && s.Steps > s.StepCap {
		s.Aborted = true
	}
	prevKind := s.lastKind
	s.lastKind = kind
	if s.Policy == PolSync && kind == YPoll && s.Steps&1023 != 0 {
		// (every 1024th poll is a decision all the same: bounded fairness)
		return
	}
	next := s.pick(true)
	if next != s.cur {
		if prevKind == YUnlock || kind == YUnlock {
			s.PreemptAfterUnlock++
		}
		s.switchTo(next)
	}
}

// pick chooses the next task to run.  curOK says whether the current task
// may continue.  Returns -1 if nothing is runnable.
//
//go:norace
func (s *Sched) pick(curOK bool) int {
	var r [maxTasks]int
	nr := 0
	if curOK && s.cur >= 0 {
		r[0] = s.cur
		nr = 1
	}
	for i := 0; i < s.n; i++ {
		t := s.tasks[i]
		ok := t.state == 0 || (t.state == 4 && t.stamp != s.progress)
		if ok && !(curOK && i == s.cur) {
			r[nr] = i
			nr++
		}
	}
	if nr == 0 {
		return -1
	}
	choice := s.choose(r[:nr], curOK)
	// bounded fairness: Go's scheduler is preemptive, a runnable goroutine is
	// not kept waiting for long; whoever has been runnable but not run for
	// Fairness steps goes first (oldest first)
	oldest := -1
	for _, i := range r[:nr] {
		if s.Steps-s.tasks[i].lastRun > Fairness && (oldest < 0 || s.tasks[i].lastRun < s.tasks[oldest].lastRun) {
			oldest = i
		}
	}
	if oldest >= 0 {
		choice = oldest
		s.Starved++
	}
	s.tasks[choice].lastRun = s.Steps
	return choice
}

// Fairness is the number of scheduling steps (about one per VM instruction)
// after which a runnable task is run whatever the policy says.
const Fairness = 5000

//go:norace
func (s *Sched) choose(r []int, curOK bool) int {
	nr := len(r)
	if nr == 1 {
		return r[0]
	}
	switch s.Policy {
	case PolUniform, PolSync:
		return r[s.C.Intn(nr)]
	case PolSticky:
		if curOK {
			if s.C.Intn(s.param) != 1 {
				return r[0]
			}
			return r[1+s.C.Intn(nr-1)]
		}
		return r[s.C.Intn(nr)]
	case PolPCT:
		for i := 0; i < s.npre; i++ {
			if s.preempt[i] == s.Steps && s.cur >= 0 {
				s.tasks[s.cur].prio = s.npre - i // below every initial priority
			}
		}
		best := r[0]
		for i := 1; i < nr; i++ {
			if s.tasks[r[i]].prio > s.tasks[best].prio {
				best = r[i]
			}
		}
		return best
	default: // PolRTC
		if curOK {
			for i := 0; i < s.npre; i++ {
				if s.preempt[i] == s.Steps {
					return r[1+s.C.Intn(nr-1)]
				}
			}
			return r[0]
		}
		return r[0]
	}
}

//go:norace
func (s *Sched) resume(next int) {
	if t := s.tasks[next]; t.state == 4 {
		t.state = 0
	}
}

// chanWait parks the running task until some other task has made a step; the
// caller then retries its channel operation.  If nobody else can move, that
// is a deadlock.
//
//go:norace
func (s *Sched) chanWaitOn(exact bool, ch unsafe.Pointer, dir int) {
	t := s.tasks[s.cur]
	t.waitChan, t.waitDir = ch, dir
	s.chanWait(exact)
	t.waitChan, t.waitDir = nil, 0
}

//go:norace
func (s *Sched) chanWait(exact bool) {
	t := s.tasks[s.cur]
	t.exact = exact
	s.ChanWaits++
	s.log(EvBlock, 1)
	t.state = 4
	t.stamp = s.progress
	next := s.pick(false)
	for next < 0 && jumpToNextTimer() {
		// everybody waits: time passes until the next timer
		s.progress++
		next = s.pick(false)
	}
	if next < 0 {
		t.waitOn = nil
		s.deadlock()
		t.park()
		return
	}
	if next == s.cur {
		t.state = 0
		return
	}
	s.Switches++
	s.log(EvSwitch, next)
	s.resume(next)
	s.cur = next
	open(&s.tasks[next].gate)
	t.park()
}

//go:norace
func (s *Sched) switchTo(next int) {
	prev := s.tasks[s.cur]
	s.Switches++
	s.log(EvSwitch, next)
	s.resume(next)
	s.cur = next
	open(&s.tasks[next].gate)
	prev.park()
}

// block parks the running task until wake(on) makes it runnable again.
//
//go:norace
func (s *Sched) block(on unsafe.Pointer) {
	t := s.tasks[s.cur]
	t.state = 1
	t.waitOn = on
	s.log(EvBlock, 0)
	nb := 0
	for i := 0; i < s.n; i++ {
		if s.tasks[i].state == 1 {
			nb++
		}
	}
	if nb > s.MaxBlocked {
		s.MaxBlocked = nb
	}
	next := s.pick(false)
	for next < 0 && jumpToNextTimer() {
		s.progress++
		next = s.pick(false)
	}
	if next < 0 {
		s.deadlock()
		// (resumed only to leave, once the simulation has been given up)
		t.park()
		return
	}
	if next == s.cur {
		// (a timer callback released what this task was waiting for)
		t.state = 0
		t.waitOn = nil
		return
	}
	s.Switches++
	s.log(EvSwitch, next)
	s.resume(next)
	s.cur = next
	open(&s.tasks[next].gate)
	t.park()
}

//go:norace
func (s *Sched) wake(on unsafe.Pointer) {
	for i := 0; i < s.n; i++ {
		t := s.tasks[i]
		if t.state == 1 && t.waitOn == on {
			t.state = 0
			t.waitOn = nil
		}
	}
}

//go:norace
func (s *Sched) deadlock() {
	s.Deadlock = true
	for i := 0; i < s.n; i++ {
		s.DeadlockWait[i] = s.tasks[i].waitOn
		if t := s.tasks[i]; t.state == 4 && !t.exact {
			// a missed rendezvous is only possible if somebody waits on the
			// other side of the same channel
			uncertain := t.waitDir == 0
			for j := 0; j < s.n && !uncertain; j++ {
				if o := s.tasks[j]; j != i && o.state == 4 && (o.waitDir == 0 || (o.waitChan == t.waitChan && o.waitDir != t.waitDir)) {
					uncertain = true
				}
			}
			if uncertain {
				s.DeadlockUncertain = true
			}
		}
	}
	s.cur = -1
	open(&s.mainGate)
}

// finish is run by a task when its function returns (or panics).
//
//go:norace
func (s *Sched) finish() {
	t := s.tasks[s.cur]
	t.state = 2
	s.progress++
	s.log(EvDone, 0)
	clientsDone := s.clients > 0
	for i := 0; i < s.clients; i++ {
		if s.tasks[i].state != 2 {
			clientsDone = false
		}
	}
	if s.StopWhen == s.cur || (clientsDone && s.Spawned > 0 && s.n > s.clients && !s.anyRunnable()) {
		// the callers are done; what is left are goroutines the library
		// started itself (still running or waiting for ever): they are
		// abandoned, not reported as a deadlock of the callers
		for i := 0; i < s.n; i++ {
			if s.tasks[i].state != 2 {
				s.Leftover++
			}
		}
		if s.Leftover > 0 || s.StopWhen == s.cur {
			s.stopped = true
			s.cur = -1
			open(&s.mainGate)
			return
		}
	}
	next := s.pick(false)
	for next < 0 && jumpToNextTimer() {
		s.progress++
		next = s.pick(false)
	}
	if next < 0 {
		for i := 0; i < s.n; i++ {
			if s.tasks[i].state == 1 || s.tasks[i].state == 4 {
				s.deadlock()
				return
			}
		}
		s.cur = -1
		open(&s.mainGate)
		return
	}
	s.Switches++
	s.log(EvSwitch, next)
	s.resume(next)
	s.cur = next
	open(&s.tasks[next].gate)
}

// ---- futex hand-over, invisible to the race detector ----

const (
	futexWaitPrivate = 0 | 128
	futexWakePrivate = 1 | 128
)

//go:norace
//go:noinline
func load32(p *uint32) uint32 { return *p }

//go:norace
//go:noinline
func store32(p *uint32, v uint32) { *p = v }

// park waits until the task is resumed; a task that is resumed after the
// simulation has ended leaves for good (deferred functions of the library run,
// nothing can recover it), so that no goroutine and no thread stays behind.
//
//go:norace
func (t *Task) park() {
	wait(&t.gate)
	if t.kill {
		runtime.Goexit()
	}
}

//go:norace
func open(gate *uint32) {
	store32(gate, 1)
	syscall.Syscall6(syscall.SYS_FUTEX, uintptr(unsafe.Pointer(gate)), futexWakePrivate, 1, 0, 0, 0)
}

//go:norace
func wait(gate *uint32) {
	for load32(gate) == 0 {
		syscall.Syscall6(syscall.SYS_FUTEX, uintptr(unsafe.Pointer(gate)), futexWaitPrivate, 0, 0, 0, 0)
	}
	store32(gate, 0)
}

// ---- simulated mutexes ----

// Mutex has the API of sync.Mutex.  Outside a simulation it is one.  Inside,
// the scheduler arbitrates; the embedded real mutex is taken as well (never
// contended) so the race detector sees the program's own happens-before edges.
type Mutex struct {
	real sync.Mutex
	held bool
}

//go:norace
func (m *Mutex) Lock() {
	s := active
	if s == nil || s.cur < 0 {
		m.real.Lock()
		return
	}
	s.yield(YLock, 0)
	for m.held {
		s.block(unsafe.Pointer(m))
	}
	m.held = true
	s.log(EvGrant, 0)
	m.real.Lock()
}

//go:norace
func (m *Mutex) TryLock() bool {
	s := active
	if s == nil || s.cur < 0 {
		return m.real.TryLock()
	}
	s.yield(YLock, 1)
	if m.held {
		return false
	}
	m.held = true
	m.real.Lock()
	return true
}

//go:norace
func (m *Mutex) Unlock() {
	s := active
	if s == nil || s.cur < 0 {
		m.real.Unlock()
		return
	}
	m.real.Unlock()
	m.held = false
	s.wake(unsafe.Pointer(m))
	s.yield(YUnlock, 0)
}

// RWMutex has the API of sync.RWMutex (see Mutex).
type RWMutex struct {
	real    sync.RWMutex
	writer  bool
	readers int
}

//go:norace
func (m *RWMutex) Lock() {
	s := active
	if s == nil || s.cur < 0 {
		m.real.Lock()
		return
	}
	s.yield(YLock, 0)
	for m.writer || m.readers > 0 {
		s.block(unsafe.Pointer(m))
	}
	m.writer = true
	s.log(EvGrant, 0)
	m.real.Lock()
}

//go:norace
func (m *RWMutex) Unlock() {
	s := active
	if s == nil || s.cur < 0 {
		m.real.Unlock()
		return
	}
	m.real.Unlock()
	m.writer = false
	s.wake(unsafe.Pointer(m))
	s.yield(YUnlock, 0)
}

//go:norace
func (m *RWMutex) RLock() {
	s := active
	if s == nil || s.cur < 0 {
		m.real.RLock()
		return
	}
	s.yield(YRLock, 0)
	for m.writer {
		s.block(unsafe.Pointer(m))
	}
	m.readers++
	s.log(EvGrant, 1)
	m.real.RLock()
}

//go:norace
func (m *RWMutex) RUnlock() {
	s := active
	if s == nil || s.cur < 0 {
		m.real.RUnlock()
		return
	}
	m.real.RUnlock()
	m.readers--
	if m.readers == 0 {
		s.wake(unsafe.Pointer(m))
	}
	s.yield(YRUnlock, 0)
}

//go:norace
func (m *RWMutex) TryLock() bool {
	s := active
	if s == nil || s.cur < 0 {
		return m.real.TryLock()
	}
	s.yield(YLock, 1)
	if m.writer || m.readers > 0 {
		return false
	}
	m.writer = true
	m.real.Lock()
	return true
}

//go:norace
func (m *RWMutex) TryRLock() bool {
	s := active
	if s == nil || s.cur < 0 {
		return m.real.TryRLock()
	}
	s.yield(YRLock, 1)
	if m.writer {
		return false
	}
	m.readers++
	m.real.RLock()
	return true
}

// RLocker mirrors sync.RWMutex.RLocker.
func (m *RWMutex) RLocker() sync.Locker { return (*rlocker)(m) }

type rlocker RWMutex

func (r *rlocker) Lock()   { (*RWMutex)(r).RLock() }
func (r *rlocker) Unlock() { (*RWMutex)(r).RUnlock() }

// Map and Locker are the real thing (their operations never block).
type (
	Map    = sync.Map
	Locker = sync.Locker
)

// Once has the API of sync.Once; a second caller waits on a simulated mutex
// (a real sync.Once would block the thread while the first caller is parked).
type Once struct {
	m    Mutex
	done bool
}

// Do mirrors sync.Once.Do.
func (o *Once) Do(f func()) {
	o.m.Lock()
	defer o.m.Unlock()
	if !o.done {
		defer func() { o.done = true }()
		f()
	}
}

// WaitGroup has the API of sync.WaitGroup.  Inside a simulation Wait is a
// polled wait (like a condition variable); the real WaitGroup underneath
// supplies the happens-before edges the race detector expects.
type WaitGroup struct {
	real sync.WaitGroup
	n    int64
}

//go:norace
func (w *WaitGroup) Add(delta int) {
	w.real.Add(delta)
	w.n += int64(delta)
	if s := active; s != nil && s.cur >= 0 {
		s.progress++
		s.yield(YChan, 5)
	}
}

// Done mirrors sync.WaitGroup.Done.
func (w *WaitGroup) Done() { w.Add(-1) }

//go:norace
func (w *WaitGroup) Wait() {
	s := active
	if s == nil || s.cur < 0 {
		w.real.Wait()
		return
	}
	for w.n > 0 {
		s.yield(YChan, 6)
		if w.n <= 0 {
			break
		}
		s.chanWait(true)
	}
	w.real.Wait()
}

// Go mirrors sync.WaitGroup.Go (go1.25).
func (w *WaitGroup) Go(f func()) {
	w.Add(1)
	Go(func() {
		defer w.Done()
		f()
	})
}

// AtomicPoint is wrapped around every operation of sync/atomic in the
// library: a scheduling point right after it.
//
//go:norace
func AtomicPoint[T any](v T) T {
	if s := active; s != nil && s.cur >= 0 {
		s.yield(YAtomic, 0)
	}
	return v
}

// AtomicPointCall is AtomicPoint for operations used as statements.
//
//go:norace
func AtomicPointCall(op func()) {
	op()
	if s := active; s != nil && s.cur >= 0 {
		s.yield(YAtomic, 0)
	}
}

// LibrarySpawns is set (by a file the rewriter generates) when the library
// starts goroutines or timers of its own: every case then runs under a
// scheduler, not only those of the concurrency property.
var LibrarySpawns bool

// Cond has the API of sync.Cond.  Outside a simulation it is one; inside, a
// waiter is parked by the scheduler (polling, like channel operations) until
// Signal or Broadcast has been called since it started waiting.  Signal wakes
// every waiter (a spurious wake-up for all but one, which correct users of a
// condition variable tolerate by re-checking their condition).
type Cond struct {
	L    Locker
	real *sync.Cond
	gen  uint64
}

// NewCond mirrors sync.NewCond.
func NewCond(l Locker) *Cond { return &Cond{L: l, real: sync.NewCond(l)} }

//go:norace
func (c *Cond) Wait() {
	s := active
	if s == nil || s.cur < 0 {
		c.real.Wait()
		return
	}
	gen := c.gen
	c.L.Unlock()
	for c.gen == gen {
		s.yield(YChan, 3)
		if c.gen != gen {
			break
		}
		s.chanWait(true)
	}
	c.L.Lock()
}

//go:norace
func (c *Cond) Signal() {
	s := active
	if s == nil || s.cur < 0 {
		c.real.Signal()
		return
	}
	c.gen++
	s.progress++
	s.yield(YChan, 4)
}

//go:norace
func (c *Cond) Broadcast() {
	s := active
	if s == nil || s.cur < 0 {
		c.real.Broadcast()
		return
	}
	c.gen++
	s.progress++
	s.yield(YChan, 4)
}

// OnceFunc mirrors sync.OnceFunc.
func OnceFunc(f func()) func() {
	var o Once
	return func() { o.Do(f) }
}

// OnceValue mirrors sync.OnceValue.
func OnceValue[T any](f func() T) func() T {
	var o Once
	var v T
	return func() T {
		o.Do(func() { v = f() })
		return v
	}
}
