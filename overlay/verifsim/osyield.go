//go:build go1.21

package verifsim

import "time"

// osyield backs off a little: a rewritten blocking select outside a
// simulation polls instead of blocking.
func osyield() { time.Sleep(50 * time.Microsecond) }
