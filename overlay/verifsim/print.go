//go:build go1.21

package verifsim

import (
	"bytes"
	"fmt"
	"os"
)

// Standard-output seam.  The rewriter redirects the library's fmt.Print*
// calls here.  Modes: pass-through (default), capture into a buffer, discard.

var (
	capBuf  *bytes.Buffer
	discard bool
)

// CaptureStdout starts capturing library output into a fresh buffer.
func CaptureStdout() { capBuf = &bytes.Buffer{}; discard = false }

// DiscardStdout drops library output (used in the concurrency simulation,
// where a shared buffer would itself be a race).
func DiscardStdout() { capBuf = nil; discard = true }

// PassStdout restores pass-through.
func PassStdout() { capBuf = nil; discard = false }

// TakeStdout returns what was captured and empties the buffer.
func TakeStdout() string {
	if capBuf == nil {
		return ""
	}
	s := capBuf.String()
	capBuf.Reset()
	return s
}

// Printf mirrors fmt.Printf.
func Printf(format string, a ...interface{}) (int, error) {
	if discard {
		return 0, nil
	}
	if capBuf != nil {
		return fmt.Fprintf(capBuf, format, a...)
	}
	return fmt.Fprintf(os.Stdout, format, a...)
}

// Println mirrors fmt.Println.
func Println(a ...interface{}) (int, error) {
	if discard {
		return 0, nil
	}
	if capBuf != nil {
		return fmt.Fprintln(capBuf, a...)
	}
	return fmt.Fprintln(os.Stdout, a...)
}

// Print mirrors fmt.Print.
func Print(a ...interface{}) (int, error) {
	if discard {
		return 0, nil
	}
	if capBuf != nil {
		return fmt.Fprint(capBuf, a...)
	}
	return fmt.Fprint(os.Stdout, a...)
}
