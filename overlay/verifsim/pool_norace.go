//go:build go1.21 && !race

package verifsim

import "unsafe"

func poolRelease(p unsafe.Pointer) {}
func poolAcquire(p unsafe.Pointer) {}
