//go:build go1.21

package verifsim

import "time"

// The library's clock.  The overlay rewriter replaces time.Now, time.Since,
// time.Until and time.Sleep in the library packages by the functions below,
// so the only wall clock the code under test can read is this one:
//
//	now = a fixed epoch + 1 µs per tick of the current SimContext
//	      + what Sleep added + PerCall for every reading so far
//
// PerCall is the clock policy of the case: 0 = time stands still between
// instructions, larger values = a clock that jumps ahead whenever it is
// looked at (a loaded machine, a suspended VM, an NTP step).  Nothing in the
// library may make the program, a result or a printed form depend on it
// (C19; the built-ins now() and time() are exempt and not generated).
var (
	simEpoch    = time.Unix(1700000000, 0)
	simOffset   int64 // ns
	TimePerCall int64 // ns added by every reading of the clock
	NowCalls    int64 // how often the library read the clock (evidence)
	SleepCalls  int64
)

// SetTimePolicy installs the clock policy for the following execution.
//
//go:norace
func SetTimePolicy(perCall time.Duration) {
	TimePerCall = int64(perCall)
	simOffset = 0
}

// Now is time.Now on the simulated clock.
//
//go:norace
func Now() time.Time {
	NowCalls++
	simOffset += TimePerCall
	var ticks int64
	if c := current(); c != nil {
		ticks = c.Clock
	}
	return simEpoch.Add(time.Duration(simOffset) + time.Duration(ticks)*time.Microsecond)
}

// Since is time.Since on the simulated clock.
func Since(t time.Time) time.Duration { return Now().Sub(t) }

// Until is time.Until on the simulated clock.
func Until(t time.Time) time.Duration { return t.Sub(Now()) }

// Sleep advances the simulated clock instead of blocking: the context of the
// running call sees the time pass (and fires if its instant is passed).
//
//go:norace
func Sleep(d time.Duration) {
	SleepCalls++
	if d <= 0 {
		return
	}
	if c := current(); c != nil {
		c.Advance(int64(d / time.Microsecond))
		if c.fired {
			// everything that still runs counts as "after the cancellation"
			c.TicksAfter += int64(d / time.Microsecond)
		}
		return
	}
	simOffset += int64(d)
}
