//go:build go1.21

package verifsim

import "time"

// The library's clock.  The overlay rewriter replaces time.Now, time.Since,
// time.Until, time.Sleep, time.After, time.AfterFunc and time.NewTimer in the
// library packages by the functions below, so the only wall clock the code
// under test can read, wait for or be woken by is this one:
//
//	now = a fixed epoch + simMono
//
// simMono advances by 1 µs per interpreter tick, by what host functions and
// Sleep add, and by PerCall at every reading (the clock policy of the case:
// 0 = time stands still between instructions, larger values = a clock that
// jumps ahead whenever it is looked at - a loaded machine, a suspended VM, an
// NTP step).  Nothing in the library may make the program, a result or a
// printed form depend on it (C19; the built-ins now() and time() are exempt
// and not generated).  Timers fire when simMono passes their instant - from
// the tick, Sleep or reading that moved the clock - and when every task of a
// concurrency simulation is waiting, the clock jumps to the next timer
// (discrete-event time).
var (
	simEpoch    = time.Unix(1700000000, 0)
	simMono     int64 // ns
	TimePerCall int64 // ns added by every reading of the clock
	NowCalls    int64 // how often the library read the clock (evidence)
	SleepCalls  int64
	TimersMade  int64
	TimersFired int64
	timers      []*Timer
)

// ResetTime starts a case: clock at the epoch, no timers.
//
//go:norace
func ResetTime() {
	simMono = 0
	TimePerCall = 0
	timers = nil
}

// SetTimePolicy installs the clock policy for the following execution.
//
//go:norace
func SetTimePolicy(perCall time.Duration) {
	TimePerCall = int64(perCall)
}

//go:norace
func advanceMono(ns int64) {
	simMono += ns
	if len(timers) > 0 {
		fireDue()
	}
}

// Now is time.Now on the simulated clock.
//
//go:norace
func Now() time.Time {
	NowCalls++
	if TimePerCall != 0 {
		advanceMono(TimePerCall)
	}
	return simEpoch.Add(time.Duration(simMono))
}

// peekNow reads the simulated clock without counting as a reading.
//
//go:norace
func peekNow() time.Time { return simEpoch.Add(time.Duration(simMono)) }

// Since is time.Since on the simulated clock.
func Since(t time.Time) time.Duration { return Now().Sub(t) }

// Until is time.Until on the simulated clock.
func Until(t time.Time) time.Duration { return t.Sub(Now()) }

// Sleep advances the simulated clock instead of blocking: the context of the
// running call sees the time pass (and fires if its instant is passed); in a
// concurrency simulation it is a scheduling point.
//
//go:norace
func Sleep(d time.Duration) {
	SleepCalls++
	if s := active; s != nil && s.cur >= 0 {
		// in a concurrency simulation the sleeper waits for the clock, which
		// the other tasks move (and which jumps when everybody waits)
		if d <= 0 {
			s.yield(YHost, 1)
			return
		}
		t := newTimer(d, nil)
		for {
			select {
			case <-t.c:
				return
			default:
			}
			s.yield(YChan, 7)
			select {
			case <-t.c:
				return
			default:
			}
			s.chanWait(true)
		}
	}
	if d > 0 {
		if c := current(); c != nil {
			c.Advance(int64(d / time.Microsecond))
			if c.fired {
				// everything that still runs counts as "after the cancellation"
				c.TicksAfter += int64(d / time.Microsecond)
			}
		} else {
			advanceMono(int64(d))
		}
	}
}

// Timer has the API of time.Timer on the simulated clock.
type Timer struct {
	C     <-chan time.Time
	c     chan time.Time
	at    int64
	f     func()
	armed bool
	// internal, if set, runs synchronously when the timer fires (deadlines
	// of derived contexts: no goroutine involved)
	internal func()
}

//go:norace
func newTimer(d time.Duration, f func()) *Timer {
	TimersMade++
	t := &Timer{at: simMono + int64(d), f: f, armed: true}
	if f == nil {
		t.c = make(chan time.Time, 1)
		t.C = t.c
	}
	timers = append(timers, t)
	if d <= 0 {
		fireDue()
	}
	return t
}

// NewTimer mirrors time.NewTimer.
func NewTimer(d time.Duration) *Timer { return newTimer(d, nil) }

// AfterFunc mirrors time.AfterFunc: f runs as a goroutine of its own (a task
// of the scheduler inside a simulation) when the simulated clock passes d.
func AfterFunc(d time.Duration, f func()) *Timer { return newTimer(d, f) }

// After mirrors time.After.
func After(d time.Duration) <-chan time.Time { return newTimer(d, nil).C }

// Stop mirrors (*time.Timer).Stop.
//
//go:norace
func (t *Timer) Stop() bool {
	was := t.armed
	t.armed = false
	return was
}

// Reset mirrors (*time.Timer).Reset.
//
//go:norace
func (t *Timer) Reset(d time.Duration) bool {
	was := t.armed
	t.at = simMono + int64(d)
	if !t.armed {
		t.armed = true
		timers = append(timers, t)
	}
	if d <= 0 {
		fireDue()
	}
	return was
}

//go:norace
func fireDue() {
	var due []*Timer
	keep := timers[:0]
	for _, t := range timers {
		switch {
		case !t.armed:
		case t.at <= simMono:
			t.armed = false
			due = append(due, t)
		default:
			keep = append(keep, t)
		}
	}
	timers = keep
	for _, t := range due {
		TimersFired++
		if t.internal != nil {
			t.internal()
			continue
		}
		if t.f != nil {
			// (no scheduling point here: the caller may be in the middle of
			// one; the new task is runnable from the next decision on)
			if s := active; s != nil && s.cur >= 0 {
				s.spawn(t.f)
			} else {
				go t.f()
			}
		} else {
			select {
			case t.c <- simEpoch.Add(time.Duration(t.at)):
			default:
			}
			if s := active; s != nil && s.cur >= 0 {
				s.progress++
			}
		}
	}
}

// jumpToNextTimer moves the clock to the earliest armed timer (when nothing
// else can run); false if there is none.
//
//go:norace
func jumpToNextTimer() bool {
	best := int64(-1)
	for _, t := range timers {
		if t.armed && (best < 0 || t.at < best) {
			best = t.at
		}
	}
	if best < 0 {
		return false
	}
	if best > simMono {
		if c := current(); c != nil {
			// the waiting call's own clock moves too (its deadline may pass)
			c.Advance((best - simMono + 999) / 1000)
		} else {
			simMono = best
		}
	}
	fireDue()
	return true
}
