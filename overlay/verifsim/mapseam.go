//go:build go1.21

package verifsim

import (
	"fmt"
	"reflect"
	"sort"
)

// Map-iteration-order seam.  The rewriter turns every `range` over a map in
// the library into a range over MapKeys(m, site) and every
// reflect.Value.MapKeys() into OrderValues(..., site).  With no policy
// installed both return Go's native (randomised) order.

// Order policy kinds.
const (
	OrdAsc     = 0 // canonical ascending
	OrdDesc    = 1
	OrdRotate  = 2 // ascending rotated by Param
	OrdShuffle = 3 // seeded shuffle, re-drawn for every call
	OrdPerm    = 4 // Param-th permutation (factorial number system) of maps with <= 4 keys, shuffle above
)

// OrderPolicy decides the iteration order at every map-range site.
type OrderPolicy struct {
	Kind  int
	Param int
	Seed  uint64
	// OnlySite restricts the policy to one site; all others iterate in
	// canonical ascending order.  Empty = every site.
	OnlySite string

	calls uint64
	// Sites counts the calls per site in which the policy could make a
	// difference (>= 2 keys).
	Sites map[string]int
}

var mapPolicy *OrderPolicy

// SetMapPolicy installs (or, with nil, removes) the order policy.
func SetMapPolicy(p *OrderPolicy) {
	if p != nil && p.Sites == nil {
		p.Sites = map[string]int{}
	}
	mapPolicy = p
}

type keyed struct {
	s string
	i int
}

func canonString(v interface{}) string {
	s := ""
	if st, ok := v.(fmt.Stringer); ok && !isNilPtr(v) {
		s = st.String()
	} else {
		s = fmt.Sprintf("%v", v)
	}
	s += "\x00" + fmt.Sprintf("%T", v)
	// AST nodes carry their source position: use it as the final tie-break
	// so that two syntactically equal keys are ordered by where they are.
	rv := reflect.ValueOf(v)
	if rv.Kind() == reflect.Ptr && !rv.IsNil() {
		rv = rv.Elem()
	}
	if rv.Kind() == reflect.Struct {
		if tok := rv.FieldByName("Token"); tok.IsValid() && tok.Kind() == reflect.Struct {
			l, c := tok.FieldByName("Line"), tok.FieldByName("Column")
			if l.IsValid() && c.IsValid() && l.CanInt() && c.CanInt() {
				s += fmt.Sprintf("\x00%09d:%09d", l.Int(), c.Int())
			}
		}
	}
	return s
}

func isNilPtr(v interface{}) bool {
	rv := reflect.ValueOf(v)
	return rv.Kind() == reflect.Ptr && rv.IsNil()
}

// order returns the permutation to apply to n items whose canonical strings
// are given.
func (p *OrderPolicy) order(strs []string, site string) []int {
	n := len(strs)
	ks := make([]keyed, n)
	for i := range strs {
		ks[i] = keyed{strs[i], i}
	}
	sort.SliceStable(ks, func(a, b int) bool { return ks[a].s < ks[b].s })
	idx := make([]int, n)
	for i := range ks {
		idx[i] = ks[i].i
	}
	if n < 2 || p.Kind == OrdAsc {
		// no shared state is touched under the canonical policy, so it is
		// safe in the concurrency simulation
		return idx
	}
	p.calls++
	if p.OnlySite != "" && p.OnlySite != site {
		return idx
	}
	p.Sites[site]++
	switch p.Kind {
	case OrdDesc:
		for i, j := 0, n-1; i < j; i, j = i+1, j-1 {
			idx[i], idx[j] = idx[j], idx[i]
		}
	case OrdRotate:
		r := p.Param % n
		out := make([]int, 0, n)
		out = append(out, idx[r:]...)
		out = append(out, idx[:r]...)
		idx = out
	case OrdPerm:
		if n <= 4 {
			k := p.Param
			pool := append([]int(nil), idx...)
			out := make([]int, 0, n)
			for m := n; m > 0; m-- {
				j := k % m
				k /= m
				out = append(out, pool[j])
				pool = append(pool[:j], pool[j+1:]...)
			}
			idx = out
			break
		}
		fallthrough
	case OrdShuffle:
		st := p.Seed ^ (p.calls * 0x9e3779b97f4a7c15)
		for i := n - 1; i > 0; i-- {
			st += 0x9e3779b97f4a7c15
			z := st
			z = (z ^ (z >> 30)) * 0xbf58476d1ce4e5b9
			z = (z ^ (z >> 27)) * 0x94d049bb133111eb
			z ^= z >> 31
			j := int(z % uint64(i+1))
			idx[i], idx[j] = idx[j], idx[i]
		}
	}
	return idx
}

// MapKeys returns the keys of m in the order the installed policy dictates.
func MapKeys[K comparable, V any](m map[K]V, site string) []K {
	keys := make([]K, 0, len(m))
	for k := range m {
		keys = append(keys, k)
	}
	p := mapPolicy
	if p == nil || len(keys) < 2 {
		return keys
	}
	strs := make([]string, len(keys))
	for i, k := range keys {
		strs[i] = canonString(k)
	}
	idx := p.order(strs, site)
	out := make([]K, len(keys))
	for i, j := range idx {
		out[i] = keys[j]
	}
	return out
}

// OrderValues orders the result of reflect.Value.MapKeys().
func OrderValues(vals []reflect.Value, site string) []reflect.Value {
	p := mapPolicy
	if p == nil || len(vals) < 2 {
		return vals
	}
	strs := make([]string, len(vals))
	for i, v := range vals {
		if v.CanInterface() {
			strs[i] = canonString(v.Interface())
		} else {
			strs[i] = fmt.Sprintf("%v", v)
		}
	}
	idx := p.order(strs, site)
	out := make([]reflect.Value, len(vals))
	for i, j := range idx {
		out[i] = vals[j]
	}
	return out
}
