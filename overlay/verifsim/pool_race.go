//go:build go1.21 && race

package verifsim

import (
	"runtime"
	"unsafe"
)

func poolRelease(p unsafe.Pointer) {
	if p != nil {
		runtime.RaceReleaseMerge(p)
	}
}

func poolAcquire(p unsafe.Pointer) {
	if p != nil {
		runtime.RaceAcquire(p)
	}
}
