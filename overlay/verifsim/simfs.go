//go:build go1.21

package verifsim

import (
	"context"
	"errors"
	"os"
	"syscall"
	"time"
)

// File-read and timer seams of the command-line driver.

// SimFile is one entry of the simulated file system.
type SimFile struct {
	Data  []byte
	Fault string // "", "enoent", "eisdir", "eio", "eacces"
}

var (
	simFS      map[string]*SimFile
	simFSOn    bool
	ReadCalls  int
	TimerCalls int
	// DriverCtx is the context handed out by the last WithTimeout call.
	DriverCtx *SimContext
	// TickNanos is the simulated duration of one VM instruction.
	TickNanos int64 = 1000
	// DriverHardCap bounds polls of a driver run regardless of -timeout.
	DriverHardCap int64
)

// InstallFS activates the simulated file system.
func InstallFS(fs map[string]*SimFile) { simFS = fs; simFSOn = true }

// ReadFile mirrors os.ReadFile / ioutil.ReadFile.
func ReadFile(name string) ([]byte, error) {
	if !simFSOn {
		return os.ReadFile(name)
	}
	ReadCalls++
	f, ok := simFS[name]
	if !ok {
		return nil, &os.PathError{Op: "open", Path: name, Err: syscall.ENOENT}
	}
	switch f.Fault {
	case "enoent":
		return nil, &os.PathError{Op: "open", Path: name, Err: syscall.ENOENT}
	case "eisdir":
		return nil, &os.PathError{Op: "read", Path: name, Err: syscall.EISDIR}
	case "eio":
		return nil, &os.PathError{Op: "read", Path: name, Err: syscall.EIO}
	case "eacces":
		return nil, &os.PathError{Op: "open", Path: name, Err: syscall.EACCES}
	case "":
		out := make([]byte, len(f.Data))
		copy(out, f.Data)
		return out, nil
	}
	return nil, errors.New("simfs: unknown fault " + f.Fault)
}

// WithTimeout mirrors context.WithTimeout on the simulated clock: the
// deadline is d / TickNanos ticks.
func WithTimeout(parent context.Context, d time.Duration) (context.Context, context.CancelFunc) {
	if !simFSOn {
		return context.WithTimeout(parent, d)
	}
	TimerCalls++
	ticks := int64(d) / TickNanos
	if d <= 0 {
		ticks = 0
	}
	c := NewSimContext(ticks)
	c.Deadline0 = true
	c.HardCap = DriverHardCap
	c.PanicAfter = 65536
	DriverCtx = c
	SetCurrent(c)
	return c, func() { c.Cancel() }
}

// WithDeadline mirrors context.WithDeadline (relative to the real now, which
// is only used to derive a duration).
func WithDeadline(parent context.Context, t time.Time) (context.Context, context.CancelFunc) {
	if !simFSOn {
		return context.WithDeadline(parent, t)
	}
	return WithTimeout(parent, time.Until(t))
}

// ExitHook runs before the driver process exits.
var ExitHook func(code int)

// Exit mirrors os.Exit.
func Exit(code int) {
	if ExitHook != nil {
		h := ExitHook
		ExitHook = nil
		h(code)
	}
	os.Exit(code)
}
