//go:build go1.21

package verifsim

import (
	"context"
	"runtime"
	"time"
)

// SimContext is a context.Context on a simulated clock.
//
// Simulated time does NOT depend on how often the engine consults its
// context: the overlay rewriter inserts a call of Tick() at the top of every
// loop of the interpreter packages, so one tick is (roughly) one VM
// instruction whether the engine polls the context every instruction, every
// thousand instructions, through a channel it cached once, or never.  Host
// functions add time with Advance.  Cancellation fires when the clock passes
// CancelAt: the Done channel is closed and Err turns non-nil at that instant.
//
// A context receives the ticks of the code that runs "under" it: the harness
// brackets every API call with Do (per task in the concurrency simulation).
type SimContext struct {
	done  chan struct{}
	fired bool
	err   error

	Clock     int64 // simulated time: ticks + what host functions added
	Ticks     int64 // interpreter loop iterations seen
	Polls     int64 // number of Done()/Err() calls (how often the engine looked)
	CancelAt  int64 // fire when Clock > CancelAt; <0 = never
	FiredAt   int64 // value of Ticks when it fired
	Deadline0 bool  // report DeadlineExceeded rather than Canceled
	// FarDeadline: Deadline() reports a deadline an hour away (a context made
	// with a long timeout and cancelled early; cancellation must still win)
	FarDeadline bool
	// NearDeadline: Deadline() always reports "half a millisecond from now":
	// a real deadline that is close but has not passed (and, on the simulated
	// clock, passes only when the cancellation fires)
	NearDeadline bool

	// TicksAfter / PollsAfter count what happened after the cancellation.
	TicksAfter int64
	PollsAfter int64

	// Hard cap on ticks (runaway protection, independent of the plan).
	HardCap int64
	HitCap  bool

	// OnFire, if set, runs at the instant the cancellation fires.
	OnFire func()

	// PanicAfter > 0: the tick that comes more than PanicAfter ticks after
	// the cancellation panics with RunawayPanic (the script ignores the
	// context; this gets control back deterministically).
	PanicAfter int64
	Runaway    bool

	// The work clock: the rewriter also inserts Work() into the loops and
	// functions of the packages that implement values and built-ins, so the
	// cost of ONE instruction is visible (one tick can hide a built-in that
	// walks a structure of any size).
	Work        int64 // work units of this run
	workInInstr int64 // work units since the last tick
	MaxInInstr  int64 // the most work seen inside one instruction
	// HeavyFireAt > 0: the cancellation fires in the middle of an
	// instruction, when that instruction has done this many work units (a
	// deadline that expires while a long built-in is running).
	HeavyFireAt int64
	// CancelAtWork > 0: the cancellation fires at this work unit of the run
	// (an instant between two instructions' ticks: inside the entry or exit
	// sequence of a call, in the middle of a built-in ...).
	CancelAtWork int64
	FiredInWork  bool
	WorkAfter    int64 // work units after the cancellation
	// (… of which inside the instruction that is running now)
	workAfterInInstr int64
	// WorkCapAfter > 0: the work unit that comes more than WorkCapAfter units
	// after the cancellation panics with RunawayWorkPanic.
	WorkCapAfter int64
	RunawayWork  bool
	RunawayStack []string // innermost first
	// InstrWorkCap > 0: an instruction that does more work units than this,
	// cancelled or not, is interrupted the same way (runaway protection for
	// runs in which no cancellation is planned).
	InstrWorkCap int64

	// Contexts the library derived from this one (see simderive.go).
	parent      *SimContext
	children    []*SimContext
	ownDeadline time.Time
	hasDeadline bool

	// Mutual-exclusion monitor (concurrency simulation only).
	ownerTask, ownerOp int
	closed             [16][2]int
	nclosed            int
	Overlap            bool
	opSeq              [maxTasks]int
}

// RunawayPanic is the value Tick panics with (see PanicAfter).
const RunawayPanic = "verifsim: still interpreting long after the context was cancelled"

var (
	curCtx  *SimContext
	taskCtx [maxTasks]*SimContext
	// TotalTicks counts every tick of the process (evidence; a clock seam
	// that never ticks is reported as trouble, not as a pass).
	TotalTicks int64
)

// NewSimContext returns a context that is cancelled when its clock passes
// cancelAt (cancelAt = 0: cancelled from the first tick or poll on);
// cancelAt < 0 never fires.
func NewSimContext(cancelAt int64) *SimContext {
	// PanicAfter has a generous default: whatever made the context fire (a
	// plan, the hard cap), an interpreter that is still running 100000
	// instructions later is interrupted instead of hanging the worker.
	return &SimContext{done: make(chan struct{}), CancelAt: cancelAt, ownerTask: -1, PanicAfter: 100000}
}

// Rearm resets the context for another run (fresh channel if it had fired).
func (c *SimContext) Rearm(cancelAt int64) {
	if c.fired {
		c.done = make(chan struct{})
		c.fired = false
		c.err = nil
	}
	c.Clock, c.Ticks, c.Polls, c.PollsAfter, c.TicksAfter, c.FiredAt = 0, 0, 0, 0, 0, 0
	c.Work, c.workInInstr, c.MaxInInstr, c.WorkAfter, c.FiredInWork, c.RunawayWork = 0, 0, 0, 0, false, false
	c.workAfterInInstr = 0
	c.CancelAt = cancelAt
	c.children = nil
	c.HitCap = false
	c.Runaway = false
}

//go:norace
func setCurrent(c *SimContext) {
	if s := active; s != nil && s.cur >= 0 {
		taskCtx[s.cur] = c
		return
	}
	curCtx = c
}

//go:norace
func current() *SimContext {
	if s := active; s != nil && s.cur >= 0 {
		return taskCtx[s.cur]
	}
	return curCtx
}

// Do runs f with c as the context that receives the ticks.
//
//go:norace
func (c *SimContext) Do(f func()) {
	prev := current()
	setCurrent(c)
	defer setCurrent(prev)
	f()
}

// SetCurrent makes c the receiver of ticks until further notice (used by the
// driver seam, where one context lives for the whole process).
func SetCurrent(c *SimContext) { setCurrent(c) }

// Tick is called at the top of every interpreter loop iteration.
//
//go:norace
func Tick() {
	TotalTicks++
	s := active
	inTask := s != nil && s.cur >= 0
	var c *SimContext
	if inTask {
		c = taskCtx[s.cur]
	} else {
		c = curCtx
	}
	if c != nil {
		c.tick()
	}
	if inTask {
		if c != nil {
			c.monitor(s.cur)
		}
		s.yield(YPoll, 0)
	}
}

//go:norace
func (c *SimContext) fire() {
	if c.fired {
		return
	}
	c.fired = true
	c.FiredAt = c.Ticks
	if c.Deadline0 {
		c.err = context.DeadlineExceeded
	} else {
		c.err = context.Canceled
	}
	close(c.done)
	for _, ch := range c.children {
		ch.cancelDerived(c.err)
	}
	if c.OnFire != nil {
		c.OnFire()
	}
}

// Cancel fires the cancellation now (e.g. from inside a host function).
//
//go:norace
func (c *SimContext) Cancel() { c.fire() }

// Fired reports whether cancellation has happened.
//
//go:norace
func (c *SimContext) Fired() bool { return c.fired }

// Advance moves simulated time forward by n ticks (a host function).
//
//go:norace
func (c *SimContext) Advance(n int64) {
	c.Clock += n
	advanceMono(n * 1000)
	if !c.fired && c.CancelAt >= 0 && c.Clock > c.CancelAt {
		c.fire()
	}
}

// RunawayWorkPanic is the value Work panics with (see WorkCapAfter).
const RunawayWorkPanic = "verifsim: one instruction is still working long after the context was cancelled"

// TotalWork counts every work unit of the process (evidence).
var TotalWork int64

// Work is called at the top of every loop iteration and function of the
// value and built-in packages.
//
//go:norace
func Work() {
	TotalWork++
	c := current()
	if c == nil {
		return
	}
	if c.RunawayWork {
		// already interrupted: the clean-up code that runs while the panic
		// unwinds (deferred functions of the library) must not be hit again
		return
	}
	c.Work++
	c.workInInstr++
	if c.workInInstr > c.MaxInInstr {
		c.MaxInInstr = c.workInInstr
	}
	if c.InstrWorkCap > 0 && c.workInInstr > c.InstrWorkCap {
		c.RunawayWork = true
		panic(RunawayWorkPanic)
	}
	if c.fired {
		c.WorkAfter++
		c.workAfterInInstr++
		if c.WorkCapAfter > 0 && c.workAfterInInstr > c.WorkCapAfter {
			c.RunawayWork = true
			// where is it? (the innermost frames name the walk that does
			// not end)
			var pcs [64]uintptr
			n := runtime.Callers(2, pcs[:])
			frames := runtime.CallersFrames(pcs[:n])
			c.RunawayStack = c.RunawayStack[:0]
			for {
				f, more := frames.Next()
				c.RunawayStack = append(c.RunawayStack, f.Function)
				if !more {
					break
				}
			}
			panic(RunawayWorkPanic)
		}
		return
	}
	if (c.HeavyFireAt > 0 && c.workInInstr == c.HeavyFireAt) || (c.CancelAtWork > 0 && c.Work == c.CancelAtWork) {
		c.FiredInWork = true
		c.fire()
	}
}

//go:norace
func (c *SimContext) tick() {
	c.workInInstr = 0
	c.workAfterInInstr = 0
	if c.fired {
		c.TicksAfter++
		if c.PanicAfter > 0 && c.TicksAfter > c.PanicAfter {
			c.Runaway = true
			panic(RunawayPanic)
		}
	}
	c.Ticks++
	c.Clock++
	advanceMono(1000)
	if !c.fired {
		if c.CancelAt >= 0 && c.Clock > c.CancelAt {
			c.fire()
		} else if c.HardCap > 0 && c.Ticks > c.HardCap {
			c.HitCap = true
			c.fire()
		} else if s := active; s != nil && s.Aborted {
			c.HitCap = true
			c.fire()
		}
	}
}

// poll is what Done and Err have in common.
//
//go:norace
func (c *SimContext) poll() {
	if c.parent != nil {
		// a derived context: the poll is the root's (its clock, its plan)
		r := c.root()
		r.Polls++
		if r.fired {
			r.PollsAfter++
		} else if r.CancelAt == 0 {
			r.fire()
		}
		if current() != r {
			setCurrent(r)
		}
		return
	}
	c.Polls++
	if c.fired {
		c.PollsAfter++
	} else if c.CancelAt == 0 {
		// already expired: visible even before the first tick
		c.fire()
	}
	// the engine is evidently running under this context
	if current() != c {
		setCurrent(c)
	}
}

// monitor flags ticks of one operation that are interleaved with ticks of
// another task's operation on the same context (= the same evaluator): the
// instructions of one Run must be contiguous if runs are mutually exclusive.
//
//go:norace
func (c *SimContext) monitor(task int) {
	op := c.opSeq[task]
	if c.ownerTask == task && c.ownerOp == op {
		return
	}
	for i := 0; i < c.nclosed && i < len(c.closed); i++ {
		if c.closed[i][0] == task && c.closed[i][1] == op {
			c.Overlap = true
		}
	}
	if c.ownerTask >= 0 {
		c.closed[c.nclosed%len(c.closed)] = [2]int{c.ownerTask, c.ownerOp}
		c.nclosed++
	}
	c.ownerTask, c.ownerOp = task, op
}

// OpBoundary tells the monitor that task starts a new client operation.
//
//go:norace
func (c *SimContext) OpBoundary(task int) {
	if task >= 0 && task < maxTasks {
		c.opSeq[task]++
	}
}

// Done implements context.Context.  The same channel is returned until Rearm.
//
//go:norace
func (c *SimContext) Done() <-chan struct{} {
	c.poll()
	return c.done
}

// Err implements context.Context.
//
//go:norace
func (c *SimContext) Err() error {
	c.poll()
	return c.err
}

// Deadline implements context.Context.
func (c *SimContext) Deadline() (time.Time, bool) {
	if c.parent != nil {
		pd, pok := c.parent.Deadline()
		switch {
		case c.hasDeadline && (!pok || c.ownDeadline.Before(pd)):
			return c.ownDeadline, true
		default:
			return pd, pok
		}
	}
	if c.FarDeadline {
		return simEpoch.Add(time.Hour), true
	}
	if c.NearDeadline {
		if c.fired {
			return peekNow().Add(-time.Microsecond), true
		}
		return peekNow().Add(500 * time.Microsecond), true
	}
	return time.Time{}, false
}

// Value implements context.Context.
func (c *SimContext) Value(key interface{}) interface{} { return nil }
