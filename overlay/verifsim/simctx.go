//go:build go1.21

package verifsim

import (
	"context"
	"time"
)

// SimContext is a context.Context whose clock is the number of times it has
// been consulted (one tick per Done/Err call = one VM instruction today) plus
// whatever host functions add with Advance.  Cancellation fires at a chosen
// tick, so "every moment of cancellation" is an integer axis.
type SimContext struct {
	done  chan struct{}
	fired bool
	err   error

	Clock    int64 // simulated time, ticks
	Polls    int64 // number of Done()/Err() calls
	CancelAt int64 // fire when Clock > CancelAt; <0 = never
	FiredAt  int64 // value of Polls when it fired
	Deadline0 bool // report DeadlineExceeded rather than Canceled

	// PollsAfter counts polls made after cancellation fired.
	PollsAfter int64

	// Hard cap on polls (runaway protection, independent of the plan).
	HardCap int64
	HitCap  bool

	// OnFire, if set, runs at the instant the cancellation fires.
	OnFire func()

	// PanicAfter > 0: a poll made more than PanicAfter polls after the
	// cancellation panics with RunawayPanic (the script ignores the
	// context; this is the only way left to get control back).
	PanicAfter int64
	Runaway    bool

	// Mutual-exclusion monitor (concurrency simulation only).
	ownerTask, ownerOp int
	closed             [16][2]int
	nclosed            int
	Overlap            bool
	opSeq              [maxTasks]int
}

// RunawayPanic is the value SimContext panics with (see PanicAfter).
const RunawayPanic = "verifsim: context still polled long after cancellation"

// NewSimContext returns a context that is cancelled when its clock passes
// cancelAt (cancelAt = 0: the very first poll already sees it cancelled);
// cancelAt < 0 never fires.
func NewSimContext(cancelAt int64) *SimContext {
	return &SimContext{done: make(chan struct{}), CancelAt: cancelAt, ownerTask: -1}
}

// Rearm resets the context for another run (fresh channel if it had fired).
func (c *SimContext) Rearm(cancelAt int64) {
	if c.fired {
		c.done = make(chan struct{})
		c.fired = false
		c.err = nil
	}
	c.Clock, c.Polls, c.PollsAfter, c.FiredAt = 0, 0, 0, 0
	c.CancelAt = cancelAt
	c.HitCap = false
	c.Runaway = false
}

//go:norace
func (c *SimContext) fire() {
	if c.fired {
		return
	}
	c.fired = true
	c.FiredAt = c.Polls
	if c.Deadline0 {
		c.err = context.DeadlineExceeded
	} else {
		c.err = context.Canceled
	}
	close(c.done)
	if c.OnFire != nil {
		c.OnFire()
	}
}

// Cancel fires the cancellation now (e.g. from inside a host function).
//
//go:norace
func (c *SimContext) Cancel() { c.fire() }

// Fired reports whether cancellation has happened.
//
//go:norace
func (c *SimContext) Fired() bool { return c.fired }

// Advance moves simulated time forward by n ticks (a "slow" host function).
//
//go:norace
func (c *SimContext) Advance(n int64) {
	c.Clock += n
	if !c.fired && c.CancelAt >= 0 && c.Clock > c.CancelAt {
		c.fire()
	}
}

//go:norace
func (c *SimContext) tick() {
	if c.fired {
		c.PollsAfter++
		if c.PanicAfter > 0 && c.PollsAfter > c.PanicAfter {
			c.Runaway = true
			panic(RunawayPanic)
		}
	}
	c.Polls++
	c.Clock++
	if !c.fired {
		if c.CancelAt >= 0 && c.Clock > c.CancelAt {
			c.fire()
		} else if c.HardCap > 0 && c.Polls > c.HardCap {
			c.HitCap = true
			c.fire()
		} else if s := active; s != nil && s.Aborted {
			c.HitCap = true
			c.fire()
		}
	}
	if s := active; s != nil && s.cur >= 0 {
		c.monitor(s.cur)
		s.yield(YPoll, 0)
	}
}

// monitor flags polls of one operation that are interleaved with polls of
// another task's operation on the same context (= the same evaluator): the
// polls of one Run must be contiguous if runs are mutually exclusive.
//
//go:norace
func (c *SimContext) monitor(task int) {
	op := c.opSeq[task]
	if c.ownerTask == task && c.ownerOp == op {
		return
	}
	for i := 0; i < c.nclosed && i < len(c.closed); i++ {
		if c.closed[i][0] == task && c.closed[i][1] == op {
			c.Overlap = true
		}
	}
	if c.ownerTask >= 0 {
		c.closed[c.nclosed%len(c.closed)] = [2]int{c.ownerTask, c.ownerOp}
		c.nclosed++
	}
	c.ownerTask, c.ownerOp = task, op
}

// OpBoundary tells the monitor that task starts a new client operation.
//
//go:norace
func (c *SimContext) OpBoundary(task int) {
	if task >= 0 && task < maxTasks {
		c.opSeq[task]++
	}
}

// Done implements context.Context.  The same channel is returned until Rearm.
//
//go:norace
func (c *SimContext) Done() <-chan struct{} {
	c.tick()
	return c.done
}

// Err implements context.Context.
//
//go:norace
func (c *SimContext) Err() error {
	c.tick()
	return c.err
}

// Deadline implements context.Context.
func (c *SimContext) Deadline() (time.Time, bool) { return time.Time{}, false }

// Value implements context.Context.
func (c *SimContext) Value(key interface{}) interface{} { return nil }
