module verif

go 1.23

require (
	github.com/anishathalye/porcupine v1.3.0
	github.com/skx/evalfilter/v2 v2.0.0
	golang.org/x/tools v0.29.0
)

require (
	golang.org/x/mod v0.22.0 // indirect
	golang.org/x/sync v0.10.0 // indirect
)

replace github.com/skx/evalfilter/v2 => /repo
