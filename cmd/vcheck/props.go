package main

type propMeta struct {
	level          string
	race           bool
	driver         bool
	maxWorkers     int
	quickBudget    int     // seconds of wall clock a worker may spend (quick)
	thoroughBudget int     // … (thorough)
	stall          float64 // watchdog: seconds without progress
	rule           string
	exhaustivePart string
	real           []string
	stub           []string
	assumptions    []string
}

var libReal = []string{"lexer", "parser", "ast", "compiler (evalfilter.go, compiler.go)", "vm (incl. optimizer)", "environment (built-ins, scopes)", "object", "stack", "code"}

var props = map[string]*propMeta{
	"C09": {
		level: "fault_enumeration", quickBudget: 100, thoroughBudget: 1500, stall: 8,
		rule: "A case = (looping shape from a fixed catalogue or a generated script in a loop wrapper, optimizer flag, front end Run/Execute, cancellation plan). " +
			"Enumerated part: for every catalogue shape and both optimizer settings, cancellation at EVERY simulated clock value 0..K (K=260 quick, 5000 thorough, 1500 for recursive shapes), already-expired, and cancellation from inside host call 1..12. " +
			"Random part: seeded (VERIF_SEED) shapes/plans incl. large clock values and slow host functions. " +
			"Non-trivial = the cancellation actually fired while the script was running; distinct = distinct digests of (script, plan, result, polls, host trace).",
		exhaustivePart: "cancellation instants 0..K for every catalogue shape x optimizer flag",
		real:           libReal,
		stub:           []string{"context.Context (SimContext: clock = polls + host calls)", "host functions (tick/h/maybe/boom)", "stdout of the library (captured)"},
		assumptions: []string{
			"time is counted in context polls and host calls, not wall-clock; the latency of one instruction (a huge regexp, 1..10^9) is outside the model",
			"a loop that neither polls the context nor calls a host function is caught only by the coordinator's wall-clock watchdog (hang confirmed twice in isolation)",
			"real context.WithTimeout timers are not exercised",
		},
	},
}
