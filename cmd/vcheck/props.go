package main

type propMeta struct {
	level          string
	race           bool
	driver         bool
	maxWorkers     int
	quickBudget    int     // seconds of wall clock a worker may spend (quick)
	thoroughBudget int     // … (thorough)
	stall          float64 // watchdog: seconds without progress
	rule           string
	exhaustivePart string
	real           []string
	stub           []string
	assumptions    []string
}

var libReal = []string{"lexer", "parser", "ast", "compiler (evalfilter.go, compiler.go)", "vm (incl. optimizer)", "environment (built-ins, scopes)", "object", "stack", "code"}

var props = map[string]*propMeta{
	// not a property of evalfilter: the simulator's own primitives on programs
	// with known outcomes (run by hand / by setup as a sanity check)
	"SIMTEST": {
		level: "exploration", race: true, quickBudget: 120, thoroughBudget: 900, stall: 20,
		rule:           "scheduler, simulated mutex/RWMutex/Cond, polled channel operations and the deterministic pool on seven small programs with known outcomes, under all scheduling policies; the race detector watches the programs (which are race-free by construction)",
		exhaustivePart: "none",
		real:           []string{"verifsim"},
		stub:           []string{},
		assumptions:    []string{"this check guards the machinery, not evalfilter"},
	},
	"C20": {
		level: "exploration", driver: true, quickBudget: 120, thoroughBudget: 1800, stall: 40,
		rule: "(a) API histories: generated orders of SetVariable / AddFunction (14 result kinds incl. void, null, panic; 0-5 arguments, nested calls) / SetContext / Prepare (repeated) / Run / Execute / GetVariable on three evaluators fed identically (optimized+Execute, NoOptimize+Execute, optimized+Run) for straight-line probe scripts whose meaning an independent reference evaluator computes: result, failure, host-call trace with printed arguments in order, every variable afterwards, Run = truth of Execute. " +
			"(b) the real cmd/evalfilter logic, one process per scenario, with file reads, the -timeout timer and exit behind seams: sub-command x flag combination x script table, JSON documents torn at EVERY byte offset, read errors (ENOENT/EISDIR/EIO), bit flips, empty / non-object / invalid-UTF-8 / out-of-range documents, looping scripts under simulated deadlines; `run` must report the type, printed value and truth (or the error text) that the library's Execute gives on the document the harness decoded itself under the same simulated deadline; every sub-command exits 0 without the top-level panic handler firing. A sample of fault-free scenarios is replayed on the shipped binary with real files (byte-identical stdout). " +
			"Non-trivial = a run/fault actually happened (API) or a fault/deadline was injected (driver); distinct = distinct digests of (script, history or scenario, outcomes).",
		exhaustivePart: "torn-read offsets of the JSON documents; sub-command x flags x script table",
		real:           append(append([]string{}, libReal...), "cmd/evalfilter (all four sub-commands), github.com/skx/subcommands, flag, encoding/json, process exit status, stdout"),
		stub:           []string{"file reads of the driver (in-memory file system with faults)", "the -timeout timer (simulated clock, 1 tick = 1 us)", "context.Context in API histories", "host functions"},
		assumptions: []string{
			"the reference evaluator covers straight-line scripts (literals, variables, fields, host calls, integer + and ==); value-returning host functions are never used in statement position (that leaves stack residue, a pure-semantics matter outside C20)",
			"the driver's wording is not constrained: containment of type, printed value, truth or error text is checked",
			"invalid flags / unknown sub-commands (exit status 1 inside the subcommands dependency) are not generated",
		},
	},
	"C19": {
		level: "exploration", driver: true, quickBudget: 100, thoroughBudget: 1500, stall: 30,
		rule: "A case = (script rich in hash literals incl. keys whose printed forms coincide and duplicate keys, keys(), foreach over hashes, string()/sprintf of containers, several functions; 1-3 host objects with nested maps; optimizer flag) executed as Prepare, runs, second Prepare, one more run. " +
			"It is executed under the canonical ascending order of every map the library ranges over (7 sites found by the rewriter), again under the same order on a fresh evaluator (other addresses), then under descending order, two rotations, two seeded per-call shuffles and ALL 23 non-identity permutations (exhaustive for maps of <= 4 entries), and twice under Go's native randomised order. " +
			"Compared: the prepared program as Dump prints it (constants with types, main bytecode, functions sorted by name), every result, host-call trace, final variables, the program and the result after the second Prepare. A divergence is attributed to a single map-range site when varying that site alone reproduces it. " +
			"One case in ten instead runs the SHIPPED driver (plain build, no seam) three times each for `bytecode` and `run -json` on a generated script and document: separate processes, separate hash seeds and address layouts, byte-identical output required. " +
			"Non-trivial = at least one map with >= 2 keys was actually iterated under a non-canonical order; distinct = distinct digests of (script, program, results, traces, variables).",
		exhaustivePart: "all 24 orders of every map with <= 4 entries, per case (same permutation index at every site)",
		real:           libReal,
		stub:           []string{"map iteration order at the rewritten range sites and reflect MapKeys calls", "context.Context (hard cap only)", "host functions (trace)", "stdout of the library (captured; Dump is read from it)"},
		assumptions: []string{
			"now()/time()/getenv() are not generated (the property exempts them)",
			"map-range sites the rewriter cannot see are only covered by the two native-order executions per case",
			"the order in which Dump lists functions is not part of the property (normalised)",
			"cross-process identity is checked by the determinism self-test (fresh processes must reproduce the digests of program, results and traces)",
		},
	},
	"C11": {
		level: "exploration", race: true, quickBudget: 150, thoroughBudget: 2400, stall: 30,
		rule: "A simulated run = 1-2 shared evaluators + 2-4 tasks (caller goroutines) x 1-4 Run operations each; a quarter of the tasks instead run a whole evaluator life cycle (New, AddFunction, SetVariable, SetContext, Prepare, Run..., GetVariable) of their own. " +
			"Exactly one task runs at a time; a seeded scheduler (policies: run-to-completion with forced preemptions, uniform, sticky, PCT-style priorities, sync-points-only) decides at every yield point: before every VM instruction (context poll), before Lock, after Unlock, at host-function entry, at operation boundaries. The evaluator's mutex is simulated (the scheduler arbitrates contention) over a real one. " +
			"Oracles: Go race detector in the race build (hand-over between tasks is invisible to it, sync.Pool made deterministic), porcupine linearizability of invoke/return histories against per-script sequential specifications (counter with unique emitted values, decrementing register, accumulate-and-store, stateless predicates over fields/regexps/built-ins/user function), mutual-exclusion monitor on the simulated context, deadlock and step-cap detection. " +
			"Non-trivial = at least one task switch happened; distinct = distinct digests of the full event log (every yield, switch, block, grant).",
		exhaustivePart: "none (seeded schedule sampling)",
		real:           append(append([]string{}, libReal...), "sync.Mutex semantics as seen by the race detector (an embedded real mutex is taken on every simulated acquisition)"),
		stub:           []string{"goroutine scheduling (seeded scheduler, futex hand-over)", "mutex arbitration (simulated contention)", "context.Context (yield point per instruction)", "host function emit()", "sync.Pool.Put in race mode (always drops)", "stdout of the library (discarded)"},
		assumptions: []string{
			"the simulated mutex models sync.Mutex/RWMutex without fairness or re-entrancy",
			"the race detector keeps a bounded access history per memory word and reports a given race once per process",
			"library code that started its own goroutines would run outside the scheduler (the rewriter reports `go` statements; there are none)",
			"linux/amd64 (raw futex, TSO)",
		},
	},
	"C08": {
		level: "fault_enumeration", quickBudget: 160, thoroughBudget: 1800, stall: 30,
		rule: "Every call of Prepare/Run/Execute/Dump is wrapped (a panic reaching the wrapper is a violation) and runs in a worker process whose death or hang the coordinator observes and confirms in isolation. " +
			"Enumerated tables: (field-access script x odd host object x front end), (faulty host function: nil/foreign/void/null result, panic with string/error/int/runtime error) x (position of the call in the script) x front end x optimizer, unbounded/mutual recursion scripts with no deadline, and deep nestings of 14 constructs at depths 10..50000. " +
			"Random part: fault histories on generated scripts (cancel at tick, cancel inside host call, host panic, nil result, script errors, odd objects, Dump in between) with a 'still usable' probe after faults (benign run must succeed whenever a fresh evaluator holding the same variables succeeds), and hostile text = seeded token/byte-level mutations of valid scripts. " +
			"The worker lowers the goroutine stack limit to 64 MB so runaway recursion becomes fatal within seconds. Non-trivial = a fault, odd object or hostile input actually reached the engine; distinct = distinct digests of (input, outcomes).",
		exhaustivePart: "the three fault tables and the nesting-depth table",
		real:           libReal,
		stub:           []string{"context.Context (SimContext with a hard cap)", "host functions incl. the faulty hf()", "stdout of the library (captured)"},
		assumptions: []string{
			"'all byte strings' is only sampled (token- and byte-level mutations, truncations, nestings up to depth 50000); no coverage-guided search is claimed",
			"misuse of the API call order (Run/Dump on a never-prepared evaluator) is outside the property",
			"host objects/functions whose own methods panic are the host's fault and are not generated",
			"debug.SetMaxStack(64 MB) in the worker: a legal host setting that only shortens the time to a stack-exhaustion crash",
		},
	},
	"C07": {
		level: "fault_enumeration", quickBudget: 100, thoroughBudget: 1500, stall: 10,
		rule: "A case = a history of 2-10 runs on one long-lived evaluator L; every run is also executed on a freshly prepared evaluator F_i that was given deep copies of L's global variables (aliasing preserved). " +
			"Compared after every run: result or error text, host-call trace, every global and every parameter/local/loop-variable name through GetVariable, instructions consumed (L <= F_i + 16), open scopes, value-stack residue, and Dump() of L against Dump() right after Prepare. " +
			"Enumerated part (crash-point enumeration): for each script of a fixed corpus x object x optimizer flag, the first run is cancelled at EVERY tick 0..natural length and, separately, a host function panics at EVERY host call; three fault-free runs follow. " +
			"Random part: generated stateful scripts (functions, locals, foreach/while/switch, ++ on pooled literals, init-once containers, guarded failing fragments) with seeded objects and fault plans (cancel at tick, cancel inside host call, host panic, nil host result, script errors, panic()). " +
			"Non-trivial = at least one run of the history ended by a fault; distinct = distinct digests of (script, per-run results, ticks, traces).",
		exhaustivePart: "cancellation at every tick and host panic at every host call of the first run, for every corpus script x object",
		real:           libReal,
		stub:           []string{"context.Context (SimContext, re-armed per run)", "host functions (h/hv/maybe/boom/hnil) with a fault plan", "stdout of the library (captured; Dump is read from it)", "map iteration order (fixed canonical order on both sides)"},
		assumptions: []string{
			"the fresh evaluator is the reference: both sides run the same code, the only difference is age",
			"scripts never call now/time/getenv/print; hashes with tied printed keys are not generated here (C19's subject)",
			"the context is re-armed between runs by the host (one context object per evaluator), not replaced through SetContext+Prepare",
			"scope-depth and stack-depth accessors are generated by type shape; if absent those two invariants are skipped (behavioural oracles remain)",
		},
	},
	"C09": {
		level: "fault_enumeration", driver: true, quickBudget: 100, thoroughBudget: 1500, stall: 30,
		rule: "A case = (looping shape from a fixed catalogue or a generated script in a loop wrapper, optimizer flag, front end Run/Execute, cancellation plan). " +
			"Enumerated part: for every catalogue shape and both optimizer settings, cancellation at EVERY simulated clock value 0..K (K=260 quick, 5000 thorough, 1500 for recursive shapes), already-expired, and cancellation from inside host call 1..12. " +
			"Random part: seeded (VERIF_SEED) shapes/plans incl. large clock values and slow host functions. " +
			"Non-trivial = the cancellation actually fired while the script was running; distinct = distinct digests of (script, plan, result, polls, host trace).",
		exhaustivePart: "cancellation instants 0..K for every catalogue shape x optimizer flag",
		real:           libReal,
		stub:           []string{"context.Context (SimContext: clock = polls + host calls)", "host functions (tick/h/maybe/boom)", "stdout of the library (captured)"},
		assumptions: []string{
			"time is counted in context polls and host calls, not wall-clock; the latency of one instruction (a huge regexp, 1..10^9) is outside the model",
			"a loop that neither polls the context nor calls a host function is caught only by the coordinator's wall-clock watchdog (hang confirmed twice in isolation)",
			"real context.WithTimeout timers are not exercised",
		},
	},
}
