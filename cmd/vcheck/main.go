// vcheck is the coordinator of the deterministic-simulation checks
// (DESIGN.md section 2): it regenerates the overlay from /repo's working
// tree, builds the worker, runs the shards, watches for dead or hung workers,
// matches violations against known_findings.json, runs the determinism
// self-test and writes the evidence file.
//
// Exit status: 0 held, 1 violation (VIOLATION line printed), 2 trouble.
package main

import (
	"regexp"
	"bytes"
	"encoding/binary"
	"encoding/json"
	"flag"
	"fmt"
	"os"
	"os/exec"
	"path/filepath"
	"runtime"
	"sort"
	"strconv"
	"strings"
	"sync"
	"syscall"
	"time"
)

// verifDir is the root of the verification tree: the parent of the bin/
// directory this executable lives in (so a snapshot of /verif works too).
var verifDir = func() string {
	if d := os.Getenv("VERIF_DIR"); d != "" {
		return d
	}
	if exe, err := os.Executable(); err == nil {
		if d := filepath.Dir(filepath.Dir(exe)); fileExists(filepath.Join(d, "worker", "main.go")) {
			return d
		}
	}
	return "/verif"
}()

func fileExists(p string) bool { _, err := os.Stat(p); return err == nil }

type violation struct {
	Class     string `json:"class"`
	Sig       string `json:"signature"`
	Detail    string `json:"detail"`
	Replay    string `json:"replay"`
	CaseIndex int    `json:"case_index"`
	Count     int    `json:"count"`
}

type stats struct {
	Faults map[string]int64 `json:"faults"`
	Probes map[string]int64 `json:"probes"`
	Max    map[string]int64 `json:"max"`
}

type shardResult struct {
	Shard       int                    `json:"shard"`
	Evaluations int                    `json:"evaluations"`
	Enumerated  int                    `json:"enumerated"`
	Random      int                    `json:"random"`
	Nontrivial  int                    `json:"nontrivial"`
	Ticks       int64                  `json:"ticks"`
	Stats       *stats                 `json:"stats"`
	Violations  []*violation           `json:"violations"`
	Samples     []interface{}          `json:"samples"`
	SelfTest    map[string]string      `json:"selftest_digests"`
	WallS       float64                `json:"wall_s"`
	Complete    bool                   `json:"complete"`
	NextCase    int                    `json:"next_case"`
	TotalCases  int                    `json:"total_cases"`
	EnumTotal   int                    `json:"enum_total"`
	Extra       map[string]interface{} `json:"extra"`
}

type knownFinding struct {
	Property  string `json:"property"`
	Class     string `json:"class"`
	Signature string `json:"signature"`
	SigPrefix string `json:"signature_prefix,omitempty"`
	What      string `json:"what"`
	Minimal   string `json:"minimal,omitempty"`
}

type knownFile struct {
	Findings []knownFinding `json:"findings"`
	Fixed    []string       `json:"fixed"`
}

func trouble(format string, a ...interface{}) {
	fmt.Fprintf(os.Stderr, "vcheck: "+format+"\n", a...)
	cleanup()
	os.Exit(2)
}

var tmpDir string
var keep bool

func cleanup() {
	if tmpDir != "" && !keep {
		os.RemoveAll(tmpDir)
	}
}

func goEnv() []string {
	env := os.Environ()
	env = append(env, "GOFLAGS=-mod=mod", "GOPROXY=off", "GOSUMDB=off", "GOTOOLCHAIN=local")
	return env
}

func run(dir string, env []string, name string, args ...string) (string, error) {
	cmd := exec.Command(name, args...)
	cmd.Dir = dir
	cmd.Env = env
	var out bytes.Buffer
	cmd.Stdout = &out
	cmd.Stderr = &out
	err := cmd.Run()
	return out.String(), err
}

func main() {
	tier := flag.String("tier", os.Getenv("VERIF_TIER"), "quick|thorough")
	replay := flag.String("replay", "", "replay file")
	workers := flag.Int("workers", runtime.NumCPU(), "parallel workers")
	flag.BoolVar(&keep, "keep", false, "keep the scratch directory")
	repo := flag.String("repo", "/repo", "evalfilter working tree")
	scale := flag.Float64("scale", 1, "scale random runs")
	noSelf := flag.Bool("no-selftest", false, "skip the determinism self-test")
	if len(os.Args) < 2 {
		fmt.Fprintln(os.Stderr, "usage: vcheck <property> [flags]")
		os.Exit(2)
	}
	prop := os.Args[1]
	flag.CommandLine.Parse(os.Args[2:])
	if *tier == "" {
		*tier = "quick"
	}
	if *tier != "quick" && *tier != "thorough" {
		trouble("unknown tier %q", *tier)
	}
	meta, ok := props[prop]
	if !ok {
		trouble("unknown property %q", prop)
	}
	seed := uint64(1)
	if s := os.Getenv("VERIF_SEED"); s != "" {
		v, err := strconv.ParseUint(s, 10, 64)
		if err != nil {
			iv, err2 := strconv.ParseInt(s, 10, 64)
			if err2 != nil {
				trouble("VERIF_SEED=%q is not an integer", s)
			}
			v = uint64(iv)
		}
		seed = v
	}
	start := time.Now()

	var err error
	tmpDir, err = os.MkdirTemp("", "vcheck-"+prop+"-")
	if err != nil {
		trouble("%v", err)
	}
	defer cleanup()

	// 1. overlay from the current working tree
	rewriter := filepath.Join(verifDir, "bin", "simrewrite")
	if _, err := os.Stat(rewriter); err != nil {
		if out, err := run(verifDir, goEnv(), "go", "build", "-o", rewriter, "./cmd/simrewrite"); err != nil {
			trouble("building simrewrite: %v\n%s", err, out)
		}
	}
	if out, err := run(verifDir, goEnv(), rewriter, "-repo", *repo, "-sim", filepath.Join(verifDir, "overlay", "verifsim"), "-out", tmpDir); err != nil {
		trouble("simrewrite failed: %v\n%s", err, out)
	}
	var rewriteReport map[string]interface{}
	if b, err := os.ReadFile(filepath.Join(tmpDir, "report.json")); err == nil {
		json.Unmarshal(b, &rewriteReport)
	}

	if ts, _ := rewriteReport["clock_tick_sites"].([]interface{}); len(ts) == 0 {
		trouble("the rewriter found no loop in the interpreter packages to attach the simulated clock to; nothing could be decided")
	}

	// 2. worker binary (and the driver for C20); a private go.mod lets
	// --repo point the harness at a scratch copy of the tree
	modfile := filepath.Join(tmpDir, "go.mod")
	{
		gm, err := os.ReadFile(filepath.Join(verifDir, "go.mod"))
		if err != nil {
			trouble("%v", err)
		}
		absRepo, _ := filepath.Abs(*repo)
		gm = bytes.Replace(gm, []byte("=> /repo"), []byte("=> "+absRepo), 1)
		os.WriteFile(modfile, gm, 0o644)
		gs, _ := os.ReadFile(filepath.Join(verifDir, "go.sum"))
		os.WriteFile(filepath.Join(tmpDir, "go.sum"), gs, 0o644)
	}
	worker := filepath.Join(tmpDir, "simworker")
	args := []string{"build", "-modfile", modfile, "-tags", "verif", "-overlay", filepath.Join(tmpDir, "overlay.json"), "-o", worker}
	if meta.race {
		args = append(args, "-race")
	}
	args = append(args, "./worker")
	if out, err := run(verifDir, goEnv(), "go", args...); err != nil {
		trouble("building the worker against %s failed (the tree must compile): %v\n%s", *repo, err, out)
	}
	wenv := append(os.Environ(), "VERIF_TMP="+tmpDir)
	if meta.race {
		os.MkdirAll(filepath.Join(tmpDir, "race"), 0o755)
		wenv = append(wenv, "GORACE=log_path="+filepath.Join(tmpDir, "race", "r")+" exitcode=0 halt_on_error=0")
	}
	if meta.driver {
		drv := filepath.Join(tmpDir, "evalfilter-sim")
		if out, err := run(verifDir, goEnv(), "go", "build", "-modfile", modfile, "-tags", "verif", "-overlay", filepath.Join(tmpDir, "overlay.json"), "-o", drv, "github.com/skx/evalfilter/v2/cmd/evalfilter"); err != nil {
			trouble("building the simulated driver failed: %v\n%s", err, out)
		}
		real := filepath.Join(tmpDir, "evalfilter-real")
		if out, err := run(*repo, goEnv(), "go", "build", "-o", real, "./cmd/evalfilter"); err != nil {
			trouble("building the shipped driver failed: %v\n%s", err, out)
		}
		wenv = append(wenv, "VERIF_DRIVER_SIM="+drv, "VERIF_DRIVER_REAL="+real)
	}

	// replay mode
	if *replay != "" {
		cmd := exec.Command(worker, "-prop", prop, "-replay", *replay)
		ownGroup(cmd)
		defer killGroup(cmd)
		cmd.Env = wenv
		cmd.Stdout, cmd.Stderr = os.Stdout, os.Stderr
		err := cmd.Run()
		killGroup(cmd)
		code := 0
		if ee, ok := err.(*exec.ExitError); ok {
			code = ee.ExitCode()
			if code != 1 {
				// the process died: for crash replays that *is* the reproduction
				if ws, ok := ee.Sys().(syscall.WaitStatus); ok && (ws.Signaled() || code == 2) {
					var rf map[string]interface{}
					b, _ := os.ReadFile(*replay)
					json.Unmarshal(b, &rf)
					if cls, _ := rf["class"].(string); strings.HasSuffix(cls, "/process-died") {
						fmt.Printf("VIOLATION property=%s replay=%s\n", prop, *replay)
						code = 1
					}
				}
			}
		} else if err != nil {
			trouble("%v", err)
		}
		cleanup()
		os.Exit(code)
	}

	resDir := filepath.Join(tmpDir, "res")
	os.MkdirAll(resDir, 0o755)
	// runs against a scratch copy of the library (seeded changes) keep their
	// replays and evidence apart: evidence/ and replays/ always describe /repo
	outBase := verifDir
	if abs, _ := filepath.Abs(*repo); abs != "/repo" {
		outBase = filepath.Join(verifDir, "scratch")
	}
	replayDir := filepath.Join(outBase, "replays")
	os.MkdirAll(replayDir, 0o755)
	if old, _ := filepath.Glob(filepath.Join(replayDir, prop+"-*.json")); true {
		for _, f := range old {
			os.Remove(f) // replays of earlier runs of this check
		}
	}

	n := *workers
	if meta.maxWorkers > 0 && n > meta.maxWorkers {
		n = meta.maxWorkers
	}
	common := []string{"-prop", prop, "-tier", *tier, "-base", fmt.Sprint(seed), "-nshards", fmt.Sprint(n),
		"-out", resDir, "-replays", replayDir, "-scale", fmt.Sprint(*scale)}
	budget := meta.quickBudget
	if *tier == "thorough" {
		budget = meta.thoroughBudget
	}
	common = append(common, "-budget-s", fmt.Sprint(budget))

	// 3. shards, with a watchdog per worker.  A worker that meets a case
	// which never ends reports it and exits 3; a worker that dies (Go fatal
	// error) leaves its last checkpoint.  Either way the shard is restarted
	// after the offending case.  Only the first hang of a run is confirmed
	// in isolation (and restarted after); later ones are merely counted.
	var mu sync.Mutex
	var died []*violation
	var notes []string
	abandoned, abandonedUnexplained := 0, 0
	hangConfirmed := false
	var wg sync.WaitGroup
	for sh := 0; sh < n; sh++ {
		wg.Add(1)
		go func(sh int) {
			defer wg.Done()
			from := 0
			var skip []string
			resFile := filepath.Join(resDir, fmt.Sprintf("shard-%d.json", sh))
			for attempt := 0; attempt < 8; attempt++ {
				wargs := append(append([]string{}, common...), "-shard", fmt.Sprint(sh), "-from", fmt.Sprint(from), "-skip", strings.Join(skip, ","), "-stall-s", fmt.Sprint(meta.stall))
				if attempt > 0 {
					wargs = append(wargs, "-no-minimise")
				}
				state, stderr, code := superviseWorker(worker, wargs, wenv, filepath.Join(resDir, fmt.Sprintf("shard-%d.cur", sh)), float64(budget)+300, 4*meta.stall+60)
				if state == "ok" {
					return
				}
				idx := readCur(filepath.Join(resDir, fmt.Sprintf("shard-%d.cur", sh)))
				// keep the checkpoint (or the partial result of a hang)
				partial := filepath.Join(resDir, fmt.Sprintf("shard-%d-a%d.json", sh, attempt))
				os.Rename(resFile, partial)
				os.Rename(strings.TrimSuffix(resFile, ".json")+".digests", strings.TrimSuffix(partial, ".json")+".digests")
				// without a checkpoint nothing of this attempt was recorded:
				// redo it from where it started (minus the fatal case)
				next := from
				var pr shardResult
				if b, err := os.ReadFile(partial); err == nil && json.Unmarshal(b, &pr) == nil && pr.NextCase <= idx+1 && pr.NextCase >= from {
					next = pr.NextCase
				}
				if code == 4 {
					// the worker reported a violation after which its process
					// could not be reused (deadlock): just carry on
					from = next
					continue
				}
				if code == 3 {
					// the worker itself reported a hang: believe it only if the
					// case hangs in isolation too (once one hang of this run is
					// confirmed, later ones are kept without repeating that)
					mu.Lock()
					known := hangConfirmed
					mu.Unlock()
					if known {
						return // shard stays incomplete; the violation is on record
					}
					if confirmHang(worker, prop, *tier, seed, idx, wenv, meta.stall) {
						mu.Lock()
						hangConfirmed = true
						mu.Unlock()
					} else {
						mu.Lock()
						notes = append(notes, fmt.Sprintf("shard %d: case %d hung in the worker but not in isolation; dropped", sh, idx))
						mu.Unlock()
						dropHang(partial)
					}
				} else {
					v := confirmDeath(worker, prop, *tier, seed, idx, wenv, state, stderr, replayDir, meta.stall)
					mu.Lock()
					if v != nil {
						died = append(died, v)
					} else {
						notes = append(notes, fmt.Sprintf("shard %d: worker %s at case %d but the isolated replay did not; not reported", sh, state, idx))
					}
					mu.Unlock()
					if v == nil && state != "died" {
						// the coordinator's own (coarse, wall-clock) limits, not
						// confirmed in isolation: a saturated machine, not a
						// finding; the case is skipped and the shard goes on
						skip = append(skip, fmt.Sprint(idx))
						from = next
						continue
					}
					if v == nil && attempt >= 2 {
						// the worker keeps dying but no single case does it alone:
						// something that needs the accumulated work of a shard
						// (a cache that fills up, a table that overflows).  If the
						// dying goroutine was in library code that is a finding
						// of its own; otherwise the machinery is in trouble.
						mu.Lock()
						notes = append(notes, fmt.Sprintf("shard %d abandoned after repeated unexplained worker failures", sh))
						abandoned++
						head := headline(stderr)
						if strings.Contains(head, " in /") {
							path := filepath.Join(replayDir, fmt.Sprintf("%s-died-shard-%d.json", prop, sh))
							rf := map[string]interface{}{"property": prop, "class": prop + "/process-died", "signature": head + " [accumulated over a shard]", "base_seed": seed, "tier": *tier, "shard": sh, "of_shards": n,
								"detail": "the worker process died three times while running its share of the cases, at different cases each time, and none of those cases dies when run alone: the death needs state that accumulates in the process", "stderr_tail": tail(stderr, 3000),
								"note": "not a single-case replay: run the check again (same VERIF_SEED) to reproduce"}
							b, _ := json.MarshalIndent(rf, "", " ")
							os.WriteFile(path, b, 0o644)
							died = append(died, &violation{Class: prop + "/process-died", Sig: head + " [accumulated over a shard]", Detail: rf["detail"].(string) + "\n" + tail(stderr, 800), Replay: path, CaseIndex: -1, Count: 1})
						} else {
							abandonedUnexplained++
						}
						mu.Unlock()
						return
					}
				}
				skip = append(skip, fmt.Sprint(idx))
				from = next
			}
		}(sh)
	}
	wg.Wait()
	_ = abandoned

	// 4. merge
	agg := &shardResult{Stats: &stats{Faults: map[string]int64{}, Probes: map[string]int64{}, Max: map[string]int64{}}, SelfTest: map[string]string{}}
	distinct := map[uint64]struct{}{}
	files, _ := filepath.Glob(filepath.Join(resDir, "shard-*.json"))
	sort.Strings(files)
	incomplete := 0
	var extras []map[string]interface{}
	for _, f := range files {
		var r shardResult
		b, _ := os.ReadFile(f)
		if err := json.Unmarshal(b, &r); err != nil {
			trouble("bad shard result %s: %v", f, err)
		}
		agg.Evaluations += r.Evaluations
		agg.Enumerated += r.Enumerated
		agg.Random += r.Random
		agg.Nontrivial += r.Nontrivial
		agg.Ticks += r.Ticks
		agg.TotalCases, agg.EnumTotal = r.TotalCases, r.EnumTotal
		if !r.Complete {
			incomplete++
		}
		for k, v := range r.Stats.Faults {
			agg.Stats.Faults[k] += v
		}
		for k, v := range r.Stats.Probes {
			agg.Stats.Probes[k] += v
		}
		for k, v := range r.Stats.Max {
			if v > agg.Stats.Max[k] {
				agg.Stats.Max[k] = v
			}
		}
		for k, v := range r.SelfTest {
			agg.SelfTest[k] = v
		}
		agg.Violations = append(agg.Violations, r.Violations...)
		if len(agg.Samples) < 6 {
			agg.Samples = append(agg.Samples, r.Samples...)
		}
		if r.Extra != nil {
			extras = append(extras, r.Extra)
		}
		if d, err := os.ReadFile(strings.TrimSuffix(f, ".json") + ".digests"); err == nil {
			for i := 0; i+8 <= len(d); i += 8 {
				distinct[binary.LittleEndian.Uint64(d[i:])] = struct{}{}
			}
		}
	}
	agg.Violations = append(agg.Violations, died...)
	if len(files) == 0 && len(agg.Violations) == 0 {
		trouble("no worker produced a result")
	}

	// 5. determinism self-test: same cases, fresh processes, other GOMAXPROCS
	selfNote := "skipped"
	if !*noSelf {
		selfNote = selfTest(worker, prop, *tier, seed, wenv, agg.SelfTest, resDir)
	}

	// 6. known findings
	known := loadKnown()
	bySig := map[string]*violation{}
	var order []string
	for _, v := range agg.Violations {
		k := v.Class + "|" + v.Sig
		if old, ok := bySig[k]; ok {
			old.Count += v.Count
			if old.Replay == "" {
				old.Replay = v.Replay
			}
			continue
		}
		bySig[k] = v
		order = append(order, k)
	}
	sort.Strings(order)
	unlisted := 0
	harnessTrouble := 0
	var knownHit []string
	for _, k := range order {
		v := bySig[k]
		if strings.HasSuffix(v.Class, "/harness") {
			// the machinery caught itself misbehaving: never a VIOLATION
			harnessTrouble++
			fmt.Fprintf(os.Stderr, "vcheck: HARNESS TROUBLE %s [%s] %s (replay %s)\n", v.Class, v.Sig, v.Detail, v.Replay)
			continue
		}
		if kf := known.match(prop, v); kf != nil {
			fmt.Printf("KNOWN-FINDING: property=%s %s [%s] %s (seen %d times; replay %s)\n", prop, v.Class, v.Sig, kf.What, v.Count, v.Replay)
			knownHit = append(knownHit, k)
			continue
		}
		unlisted++
		fmt.Printf("VIOLATION property=%s replay=%s\n", prop, v.Replay)
		fmt.Printf("  class=%s signature=%s occurrences=%d\n  %s\n", v.Class, v.Sig, v.Count, v.Detail)
	}

	// 7. evidence
	wall := time.Since(start).Seconds()
	if len(agg.Samples) == 0 {
		agg.Samples = append(agg.Samples, "no non-trivial sample was rendered in this run")
	}
	cov := map[string]interface{}{
		"evaluations":         agg.Evaluations,
		"distinct_nontrivial": len(distinct),
		"rule":                meta.rule,
		"samples":             agg.Samples,
		"enumerated_cases":    agg.Enumerated,
		"enumerated_total":    agg.EnumTotal,
		"random_cases":        agg.Random,
		"exhaustive":          false,
		"exhaustive_part":     meta.exhaustivePart,
		"nontrivial_runs":     agg.Nontrivial,
		"faults_fired":        agg.Stats.Faults,
		"reach_probes":        agg.Stats.Probes,
		"observed_maxima":     agg.Stats.Max,
		"simulated_ticks":     agg.Ticks,
		"runs_per_hour":       int64(float64(agg.Evaluations) / wall * 3600),
		"workers":             n,
		"shards_incomplete":   incomplete,
		"selftest":            selfNote,
		"real_components":     meta.real,
		"stubbed_components":  meta.stub,
		"overlay":             rewriteReport,
		"known_findings_seen": knownHit,
		"notes":               notes,
	}
	if len(extras) > 0 {
		cov["extra"] = mergeExtras(extras)
	}
	ev := map[string]interface{}{
		"property_id": prop,
		"tier":        *tier,
		"seed":        int64(seed),
		"level":       meta.level,
		"coverage":    cov,
		"assumptions": meta.assumptions,
		"wall_s":      wall,
		"violations":  unlisted,
	}
	b, _ := json.MarshalIndent(ev, "", " ")
	evDir := filepath.Join(outBase, "evidence")
	if prop == "SIMTEST" {
		// (not a property of the library: the simulator's self-check keeps
		// its report apart from the per-property evidence)
		evDir = filepath.Join(outBase, "selfcheck")
	}
	os.MkdirAll(evDir, 0o755)
	if err := os.WriteFile(filepath.Join(evDir, prop+".json"), b, 0o644); err != nil {
		trouble("%v", err)
	}
	fmt.Printf("%s %s: %d simulated runs (%d enumerated, %d random), %d distinct non-trivial, %d unlisted violation signature(s), %d known, self-test: %s, %.1fs\n",
		prop, *tier, agg.Evaluations, agg.Enumerated, agg.Random, len(distinct), unlisted, len(knownHit), selfNote, wall)
	cleanup()
	if unlisted > 0 {
		os.Exit(1)
	}
	if strings.HasPrefix(selfNote, "MISMATCH") {
		fmt.Fprintf(os.Stderr, "vcheck: determinism self-test failed: %s\n", selfNote)
		os.Exit(2)
	}
	if harnessTrouble > 0 {
		os.Exit(2)
	}
	if abandonedUnexplained > 0 {
		fmt.Fprintf(os.Stderr, "vcheck: %d shard(s) were abandoned after repeated unexplained worker failures: the result above is not complete\n", abandonedUnexplained)
		os.Exit(2)
	}
}

func mergeExtras(ex []map[string]interface{}) map[string]interface{} {
	out := map[string]interface{}{}
	for _, e := range ex {
		for k, v := range e {
			switch n := v.(type) {
			case float64:
				if old, ok := out[k].(float64); ok {
					out[k] = old + n
				} else {
					out[k] = n
				}
			default:
				if _, ok := out[k]; !ok {
					out[k] = v
				}
			}
		}
	}
	return out
}

func (k *knownFile) match(prop string, v *violation) *knownFinding {
	for i := range k.Findings {
		f := &k.Findings[i]
		if f.Property != prop || f.Class != v.Class {
			continue
		}
		if f.Signature == v.Sig || (f.SigPrefix != "" && strings.HasPrefix(v.Sig, f.SigPrefix)) {
			return f
		}
	}
	return nil
}

func loadKnown() *knownFile {
	k := &knownFile{}
	b, err := os.ReadFile(filepath.Join(verifDir, "known_findings.json"))
	if err != nil {
		return k
	}
	if err := json.Unmarshal(b, k); err != nil {
		trouble("known_findings.json: %v", err)
	}
	return k
}

func readCur(path string) int {
	b, err := os.ReadFile(path)
	if err != nil {
		return -1
	}
	// (the case index is the first field; a heartbeat may follow it)
	f := strings.Fields(strings.ReplaceAll(string(b), "\x00", " "))
	if len(f) == 0 {
		return -1
	}
	n, err := strconv.Atoi(f[0])
	if err != nil {
		return -1
	}
	return n
}

// superviseWorker runs one worker; it is killed if its progress marker does
// not change for stall seconds or it exceeds the overall deadline.
func superviseWorker(worker string, args, env []string, curPath string, deadlineS, stallS float64) (state string, stderr string, code int) {
	cmd := exec.Command(worker, args...)
	ownGroup(cmd)
	defer killGroup(cmd)
	cmd.Env = env
	var eb bytes.Buffer
	cmd.Stderr = &eb
	cmd.Stdout = &eb
	if err := cmd.Start(); err != nil {
		return "unstartable", err.Error(), -1
	}
	done := make(chan error, 1)
	go func() { done <- cmd.Wait() }()
	start := time.Now()
	last := ""
	lastChange := time.Now()
	tick := time.NewTicker(500 * time.Millisecond)
	defer tick.Stop()
	for {
		select {
		case err := <-done:
			if err == nil {
				return "ok", eb.String(), 0
			}
			c := -1
			if ee, ok := err.(*exec.ExitError); ok {
				c = ee.ExitCode()
			}
			return "died", headTail(eb.String(), 6000), c
		case <-tick.C:
			b, _ := os.ReadFile(curPath)
			if s := string(b); s != last {
				last, lastChange = s, time.Now()
			}
			if time.Since(lastChange).Seconds() > stallS {
				killGroup(cmd)
				<-done
				return "hung", tail(eb.String(), 6000), -1
			}
			if time.Since(start).Seconds() > deadlineS {
				killGroup(cmd)
				<-done
				return "overran", tail(eb.String(), 6000), -1
			}
		}
	}
}

func headTail(s string, n int) string {
	if len(s) > 2*n {
		return s[:n] + "\n...\n" + s[len(s)-n:]
	}
	return s
}

func tail(s string, n int) string {
	if len(s) > n {
		return s[len(s)-n:]
	}
	return s
}

var reCaseKind = regexp.MustCompile(`^[^0-9:]*`)

func headline(stderr string) string {
	head := "no headline"
	for _, l := range strings.Split(stderr, "\n") {
		l = strings.TrimSpace(l)
		if strings.HasPrefix(l, "fatal error:") || strings.HasPrefix(l, "panic:") {
			head = l
			break
		}
	}
	if len(head) > 100 {
		head = head[:100]
	}
	// … and the kind of workload that was running (the case description up
	// to its first digit): the same function can be the place where two
	// different defects end
	kind := ""
	for _, l := range strings.Split(stderr, "\n") {
		if strings.HasPrefix(l, "verif-case: ") {
			kind = strings.TrimSpace(reCaseKind.FindString(strings.TrimPrefix(l, "verif-case: ")))
		}
	}
	if kind != "" {
		kind = " [" + kind + "]"
	}
	// name the library function the dying goroutine was in, so that two
	// different crashes do not share a signature
	for _, l := range strings.Split(stderr, "\n") {
		l = strings.TrimSpace(l)
		if strings.HasPrefix(l, "github.com/skx/evalfilter/v2") && !strings.Contains(l, "/verifsim.") {
			if i := strings.LastIndex(l, "("); i > 0 {
				l = l[:i]
			}
			return head + " in " + strings.TrimPrefix(l, "github.com/skx/evalfilter/v2") + kind
		}
	}
	return head + kind
}

// confirmDeath replays one case alone, twice; only a reproducible death or
// hang is reported.
func confirmDeath(worker, prop, tier string, seed uint64, idx int, env []string, state, stderr, replayDir string, stallS float64) *violation {
	if idx < 0 {
		return nil
	}
	var lastErr string
	for i := 0; i < 2; i++ {
		cmd := exec.Command(worker, "-prop", prop, "-tier", tier, "-base", fmt.Sprint(seed), "-case", fmt.Sprint(idx), "-stall-s", fmt.Sprint(stallS))
		ownGroup(cmd)
		cmd.Env = env
		var ob, eb bytes.Buffer
		cmd.Stdout, cmd.Stderr = &ob, &eb
		cmd.Start()
		done := make(chan error, 1)
		go func() { done <- cmd.Wait() }()
		var err error
		hung := false
		select {
		case err = <-done:
		case <-time.After(time.Duration(20*stallS+60) * time.Second):
			killGroup(cmd)
			<-done
			hung = true
		}
		killGroup(cmd)
		if hung {
			lastErr = "hang"
			continue
		}
		if err == nil {
			return nil
		}
		if ee, ok := err.(*exec.ExitError); ok && ee.ExitCode() == 1 {
			// an ordinary violation, the worker will have reported it
			return nil
		}
		if ee, ok := err.(*exec.ExitError); ok && ee.ExitCode() == 3 {
			// the isolated worker's own watchdog: no progress for stallS seconds
			lastErr = "hang"
			continue
		}
		lastErr = headline(eb.String())
		stderr = headTail(eb.String(), 4000)
	}
	class := prop + "/process-died"
	sig := lastErr
	if lastErr == "hang" {
		class = prop + "/hang"
		sig = "no progress for the watchdog period"
	}
	rf := map[string]interface{}{
		"property": prop, "class": class, "signature": sig, "base_seed": seed, "tier": tier, "case_index": idx,
		"detail": "the worker process " + state + " while running this case; confirmed twice in isolation", "stderr_tail": tail(stderr, 3000),
	}
	path := filepath.Join(replayDir, fmt.Sprintf("%s-died-%d.json", prop, idx))
	b, _ := json.MarshalIndent(rf, "", " ")
	os.WriteFile(path, b, 0o644)
	return &violation{Class: class, Sig: sig, Detail: rf["detail"].(string) + "\n" + tail(stderr, 800), Replay: path, CaseIndex: idx, Count: 1}
}

// confirmHang replays one case alone under the same watchdog.
func confirmHang(worker, prop, tier string, seed uint64, idx int, env []string, stallS float64) bool {
	// the isolated worker applies the same watchdog (no sign of progress for
	// stallS seconds: exit 3); a case that is merely long reports progress
	cmd := exec.Command(worker, "-prop", prop, "-tier", tier, "-base", fmt.Sprint(seed), "-case", fmt.Sprint(idx), "-stall-s", fmt.Sprint(stallS))
	ownGroup(cmd)
	defer killGroup(cmd)
	cmd.Env = env
	cmd.Start()
	done := make(chan error, 1)
	go func() { done <- cmd.Wait() }()
	select {
	case err := <-done:
		if ee, ok := err.(*exec.ExitError); ok && ee.ExitCode() == 3 {
			return true
		}
		return false
	case <-time.After(time.Duration(20*stallS+60) * time.Second):
		killGroup(cmd)
		<-done
		return true
	}
}

// dropHang removes hang records from a partial result.
func dropHang(path string) {
	var r shardResult
	b, err := os.ReadFile(path)
	if err != nil || json.Unmarshal(b, &r) != nil {
		return
	}
	var keepV []*violation
	for _, v := range r.Violations {
		if !strings.HasSuffix(v.Class, "/hang") {
			keepV = append(keepV, v)
		}
	}
	r.Violations = keepV
	nb, _ := json.Marshal(r)
	os.WriteFile(path, nb, 0o644)
}

func selfTest(worker, prop, tier string, seed uint64, env []string, ref map[string]string, resDir string) string {
	if len(ref) == 0 {
		return "no self-test cases ran"
	}
	checked := 0
	for _, procs := range []string{"1", "4", "16"} {
		dir := filepath.Join(resDir, "self"+procs)
		os.MkdirAll(dir, 0o755)
		cmd := exec.Command(worker, "-prop", prop, "-tier", tier, "-base", fmt.Sprint(seed), "-nshards", "1", "-shard", "0", "-selftest-only", "-out", dir, "-replays", filepath.Join(dir, "replays"))
		cmd.Env = append(append([]string{}, env...), "GOMAXPROCS="+procs)
		ownGroup(cmd)
		out, err := cmd.CombinedOutput()
		killGroup(cmd)
		if err != nil {
			if ee, ok := err.(*exec.ExitError); ok && (ee.ExitCode() == 3 || ee.ExitCode() == 4) {
				return "cut short: a self-test case hangs or deadlocks (see the reported violation)"
			}
			return fmt.Sprintf("MISMATCH: self-test worker failed at GOMAXPROCS=%s: %v %s", procs, err, tail(string(out), 500))
		}
		var r shardResult
		b, _ := os.ReadFile(filepath.Join(dir, "self-0.json"))
		if err := json.Unmarshal(b, &r); err != nil {
			return "MISMATCH: unreadable self-test result"
		}
		for k, v := range r.SelfTest {
			if rv, ok := ref[k]; ok {
				checked++
				if rv != v {
					return fmt.Sprintf("MISMATCH: case %s digest %s in the sharded run vs %s in a fresh process at GOMAXPROCS=%s", k, rv, v, procs)
				}
			}
		}
	}
	return fmt.Sprintf("ok: %d digests of %d cases identical across fresh processes at GOMAXPROCS 1/4/16 and the sharded run", checked, len(ref))
}

// ownGroup puts a worker into a process group of its own, so that whatever it
// started (driver processes, cold-start children) can be removed with it: a
// worker killed for stalling must not leave a spinning child behind.
func ownGroup(cmd *exec.Cmd) {
	cmd.SysProcAttr = &syscall.SysProcAttr{Setpgid: true, Pdeathsig: syscall.SIGKILL}
}

func killGroup(cmd *exec.Cmd) {
	if cmd.Process != nil {
		syscall.Kill(-cmd.Process.Pid, syscall.SIGKILL)
		cmd.Process.Kill()
	}
}
