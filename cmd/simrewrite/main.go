// simrewrite generates the build overlay that puts evalfilter's sources of
// nondeterminism behind seams owned by the simulator (DESIGN.md section 2.2).
//
//	simrewrite -repo /repo -sim /verif/overlay/verifsim -out <dir> [-race-goroot]
//
// It reads the *current* sources under -repo, writes rewritten copies under
// <dir>/src, the simulator package under <dir>/src/verifsim, generated accessor
// files, <dir>/overlay.json and <dir>/report.json.  Exit status 2 on any
// trouble; it never prints VIOLATION.
package main

import (
	"bytes"
	"encoding/json"
	"flag"
	"fmt"
	"go/ast"
	"go/format"
	"go/printer"
	"go/token"
	"go/types"
	"os"
	"os/exec"
	"path/filepath"
	"sort"
	"strconv"
	"strings"

	"golang.org/x/tools/go/ast/astutil"
	"golang.org/x/tools/go/packages"
)

const modPath = "github.com/skx/evalfilter/v2"
const simPath = modPath + "/verifsim"

type report struct {
	MapRangeSites   []string          `json:"map_range_sites"`
	MapKeysSites    []string          `json:"reflect_mapkeys_sites"`
	SkippedSites    []string          `json:"skipped_sites"`
	SyncFiles       []string          `json:"sync_redirected_files"`
	PrintCalls      int               `json:"print_calls_redirected"`
	GoStatements    []string          `json:"go_statements_in_library"`
	Accessors       map[string]string `json:"accessors"`
	DriverRewrites  []string          `json:"driver_rewrites"`
	RewrittenFiles  []string          `json:"rewritten_files"`
	PoolPatched     bool              `json:"sync_pool_patched"`
	TickSites       []string          `json:"clock_tick_sites"`
	TickMode        string            `json:"clock_tick_mode"`
	ChanOps         []string          `json:"channel_operations_modelled"`
	ChanSkipped     []string          `json:"channel_operations_not_modelled"`
	PackageLevelVar []string          `json:"package_level_vars"`
	WorkSites       int               `json:"work_clock_sites"`
	TimeRewrites    []string          `json:"wall_clock_reads_redirected"`
	TimeUnmodelled  []string          `json:"wall_clock_uses_not_modelled"`
	Spawns          []string          `json:"goroutines_and_timers_of_the_library_scheduled"`
	AtomicPoints    int               `json:"atomic_operations_with_scheduling_point"`
	CtxDerived      []string          `json:"context_derivations_in_library_not_modelled"`
	CtxModelled     []string          `json:"context_derivations_in_library_simulated"`
	LibrarySpawns   bool              `json:"library_starts_goroutines_or_timers"`
}

func die(format string, a ...interface{}) {
	fmt.Fprintf(os.Stderr, "simrewrite: "+format+"\n", a...)
	os.Exit(2)
}

func main() {
	repo := flag.String("repo", "/repo", "evalfilter working tree")
	sim := flag.String("sim", "/verif/overlay/verifsim", "simulator package sources")
	out := flag.String("out", "", "output directory")
	pool := flag.Bool("pool", true, "also overlay $GOROOT/src/sync/pool.go (used by race builds only)")
	flag.Parse()
	if *out == "" {
		die("-out required")
	}
	absRepo, _ := filepath.Abs(*repo)
	overlay := map[string]string{}
	rep := &report{Accessors: map[string]string{}}

	cfg := &packages.Config{
		Mode: packages.NeedName | packages.NeedFiles | packages.NeedCompiledGoFiles | packages.NeedImports |
			packages.NeedDeps | packages.NeedTypes | packages.NeedSyntax | packages.NeedTypesInfo | packages.NeedTypesSizes,
		Dir: absRepo,
		Env: append(os.Environ(), "GOFLAGS=-mod=mod", "GOPROXY=off", "GOSUMDB=off", "GOTOOLCHAIN=local"),
	}
	pkgs, err := packages.Load(cfg, "./...")
	if err != nil {
		die("load: %v", err)
	}
	if packages.PrintErrors(pkgs) > 0 {
		die("the tree does not type-check")
	}
	sort.Slice(pkgs, func(i, j int) bool { return pkgs[i].PkgPath < pkgs[j].PkgPath })

	// choose the clock mode: is there a recognisable dispatch loop?
	hasDispatch := false
	for _, p := range pkgs {
		if !strings.HasPrefix(p.PkgPath, modPath) || strings.HasPrefix(p.PkgPath, modPath+"/cmd/") {
			continue
		}
		for _, f := range p.Syntax {
			ast.Inspect(f, func(n ast.Node) bool {
				switch l := n.(type) {
				case *ast.ForStmt:
					if l.Body != nil && isDispatchLoop(l.Body) {
						hasDispatch = true
					}
				case *ast.RangeStmt:
					if l.Body != nil && isDispatchLoop(l.Body) {
						hasDispatch = true
					}
				}
				return true
			})
		}
	}
	if !hasDispatch {
		tickMode = "all"
	}
	rep.TickMode = tickMode

	srcOut := filepath.Join(*out, "src")
	for _, p := range pkgs {
		if !strings.HasPrefix(p.PkgPath, modPath) {
			continue
		}
		isDriver := strings.HasPrefix(p.PkgPath, modPath+"/cmd/")
		for i, f := range p.Syntax {
			fname := p.CompiledGoFiles[i]
			rel, err := filepath.Rel(absRepo, fname)
			if err != nil || strings.HasPrefix(rel, "..") {
				continue
			}
			// the clock seam: instruction-dispatch loops of the library tick
			rw := &rewriter{pkg: p, file: f, rel: rel, rep: rep, driver: isDriver, ticks: !isDriver && tickMode != "none"}
			changed := rw.run()
			if !changed {
				continue
			}
			var buf bytes.Buffer
			// Comments are dropped from rewritten copies (they are
			// compile-only); build constraints are re-created.
			constraint := buildConstraint(f)
			f.Comments = nil
			f.Doc = nil
			stripDocs(f)
			if err := (&printer.Config{Mode: printer.UseSpaces | printer.TabIndent, Tabwidth: 8}).Fprint(&buf, p.Fset, f); err != nil {
				die("print %s: %v", rel, err)
			}
			src := buf.Bytes()
			hdr := "//go:build go1.21"
			if constraint != "" {
				hdr = "//go:build go1.21 && (" + constraint + ")"
			}
			src = append([]byte(hdr+"\n\n"), src...)
			if fm, err := format.Source(src); err == nil {
				src = fm
			} else {
				die("rewritten %s does not parse: %v", rel, err)
			}
			dst := filepath.Join(srcOut, rel)
			writeFile(dst, src)
			overlay[fname] = dst
			rep.RewrittenFiles = append(rep.RewrittenFiles, rel)
		}
		if !isDriver {
			genAccessors(p, absRepo, srcOut, overlay, rep)
			for _, name := range p.Types.Scope().Names() {
				if v, ok := p.Types.Scope().Lookup(name).(*types.Var); ok {
					rep.PackageLevelVar = append(rep.PackageLevelVar, p.PkgPath[len(modPath):]+"."+v.Name())
				}
			}
		} else if p.Name == "main" {
			dst := filepath.Join(srcOut, "cmd", filepath.Base(p.PkgPath), "zz_verif_main.go")
			writeFile(dst, []byte(driverMain))
			overlay[filepath.Join(absRepo, "cmd", filepath.Base(p.PkgPath), "zz_verif_main.go")] = dst
		}
	}

	// The simulator package itself.
	ents, err := os.ReadDir(*sim)
	if err != nil {
		die("read %s: %v", *sim, err)
	}
	for _, e := range ents {
		if !strings.HasSuffix(e.Name(), ".go") {
			continue
		}
		data, err := os.ReadFile(filepath.Join(*sim, e.Name()))
		if err != nil {
			die("%v", err)
		}
		dst := filepath.Join(srcOut, "verifsim", e.Name())
		writeFile(dst, data)
		overlay[filepath.Join(absRepo, "verifsim", e.Name())] = dst
	}

	if len(rep.Spawns) > 0 {
		// the library starts goroutines or timers of its own: the workers run
		// every case (not only C11's) under the scheduler
		rep.LibrarySpawns = true
		dst := filepath.Join(srcOut, "verifsim", "zz_spawns.go")
		writeFile(dst, []byte("//go:build go1.21\n\npackage verifsim\n\nfunc init() { LibrarySpawns = true }\n"))
		overlay[filepath.Join(absRepo, "verifsim", "zz_spawns.go")] = dst
	}
	if *pool {
		patchPool(srcOut, overlay, rep)
	}

	sort.Strings(rep.RewrittenFiles)
	ov, _ := json.MarshalIndent(map[string]interface{}{"Replace": overlay}, "", " ")
	writeFile(filepath.Join(*out, "overlay.json"), ov)
	rj, _ := json.MarshalIndent(rep, "", " ")
	writeFile(filepath.Join(*out, "report.json"), rj)
}

func writeFile(path string, data []byte) {
	if err := os.MkdirAll(filepath.Dir(path), 0o755); err != nil {
		die("%v", err)
	}
	if err := os.WriteFile(path, data, 0o644); err != nil {
		die("%v", err)
	}
}

func stripDocs(f *ast.File) {
	ast.Inspect(f, func(n ast.Node) bool {
		switch d := n.(type) {
		case *ast.FuncDecl:
			d.Doc = nil
		case *ast.GenDecl:
			d.Doc = nil
		case *ast.Field:
			d.Doc, d.Comment = nil, nil
		case *ast.ImportSpec:
			d.Doc, d.Comment = nil, nil
		case *ast.ValueSpec:
			d.Doc, d.Comment = nil, nil
		case *ast.TypeSpec:
			d.Doc, d.Comment = nil, nil
		}
		return true
	})
}

// buildConstraint returns the expression of a //go:build line preceding the
// package clause; any other compiler directive in the file is refused.
func buildConstraint(f *ast.File) string {
	c := ""
	for _, cg := range f.Comments {
		for _, cm := range cg.List {
			t := cm.Text
			if strings.HasPrefix(t, "//go:build ") && cm.Pos() < f.Package {
				c = strings.TrimSpace(strings.TrimPrefix(t, "//go:build "))
			} else if strings.HasPrefix(t, "//go:embed") || strings.HasPrefix(t, "//go:linkname") || strings.HasPrefix(t, "//go:cgo_") {
				// (other directives - noinline, nosplit, norace … - only tune
				// code generation and are dropped with the comments)
				die("file with compiler directive %q needs a rewrite; not supported", t)
			}
		}
	}
	return c
}

type rewriter struct {
	pkg     *packages.Package
	file    *ast.File
	rel     string
	rep     *report
	driver  bool
	ticks   bool // interpreter package: every loop iteration is a clock tick
	n       int
	needSim bool
}

// tickMode: "dispatch" = only loops that dispatch on opcodes tick (a loop
// whose body holds a switch with at least 8 case clauses: one tick = one VM
// instruction); "all" = every loop of package vm (fallback when no dispatch
// loop is recognisable, e.g. after a refactoring).
var tickMode = "dispatch"

// isDispatchLoop reports whether the loop body (not looking into nested
// function literals) contains a switch statement with many cases.
func isDispatchLoop(body *ast.BlockStmt) bool {
	found := false
	ast.Inspect(body, func(n ast.Node) bool {
		switch s := n.(type) {
		case *ast.FuncLit:
			return false
		case *ast.SwitchStmt:
			if s.Body != nil && len(s.Body.List) >= 8 {
				found = true
			}
		}
		return !found
	})
	return found
}

func (r *rewriter) wantsTick(body *ast.BlockStmt) bool {
	if !r.ticks || body == nil {
		return false
	}
	if tickMode == "all" {
		return r.pkg.PkgPath == modPath+"/vm"
	}
	return isDispatchLoop(body)
}

// hasBareContinue reports whether a select body contains a `continue` without
// label that refers to a loop outside the select.
func hasBareContinue(body *ast.BlockStmt) bool {
	found := false
	var walk func(n ast.Node, inLoop bool)
	walk = func(n ast.Node, inLoop bool) {
		ast.Inspect(n, func(m ast.Node) bool {
			if m == nil || found {
				return false
			}
			switch x := m.(type) {
			case *ast.FuncLit:
				return false
			case *ast.ForStmt:
				if m != n {
					walk(x.Body, true)
					return false
				}
			case *ast.RangeStmt:
				if m != n {
					walk(x.Body, true)
					return false
				}
			case *ast.BranchStmt:
				if x.Tok == token.CONTINUE && x.Label == nil && !inLoop {
					found = true
				}
			}
			return true
		})
	}
	walk(body, false)
	return found
}

func workStmt() ast.Stmt {
	return &ast.ExprStmt{X: &ast.CallExpr{Fun: simSel("Work")}}
}

// wantsWork: the loops and functions of the packages that implement values,
// built-ins and the interpreter's helpers feed the work clock.
func (r *rewriter) wantsWork() bool {
	if r.driver || !r.ticks {
		return false
	}
	switch strings.TrimPrefix(r.pkg.PkgPath, modPath) {
	case "", "/object", "/environment", "/vm", "/stack":
		return true
	}
	return false
}

func tickStmt() ast.Stmt {
	return &ast.ExprStmt{X: &ast.CallExpr{Fun: simSel("Tick")}}
}

func (r *rewriter) site(pos token.Pos, fn string) string {
	p := r.pkg.Fset.Position(pos)
	return fmt.Sprintf("%s:%s:%d", r.rel, fn, p.Line)
}

func (r *rewriter) isPkg(x ast.Expr, path string) bool {
	id, ok := x.(*ast.Ident)
	if !ok {
		return false
	}
	pn, ok := r.pkg.TypesInfo.Uses[id].(*types.PkgName)
	return ok && pn.Imported().Path() == path
}

func simSel(name string) ast.Expr {
	return &ast.SelectorExpr{X: ast.NewIdent("verifsim"), Sel: ast.NewIdent(name)}
}

func (r *rewriter) run() bool {
	changed := false
	info := r.pkg.TypesInfo

	// 1. sync -> verifsim (library only)
	if !r.driver {
		for _, imp := range r.file.Imports {
			if imp.Path.Value == `"sync"` {
				name := "sync"
				if imp.Name != nil {
					name = imp.Name.Name
				}
				imp.Name = ast.NewIdent(name)
				imp.Path.Value = strconv.Quote(simPath)
				imp.EndPos = 0
				r.rep.SyncFiles = append(r.rep.SyncFiles, r.rel)
				changed = true
			}
		}
	}

	// the communication statements of select cases stay as they are
	inComm := map[ast.Node]bool{}
	if !r.driver {
		ast.Inspect(r.file, func(n ast.Node) bool {
			if cc, ok := n.(*ast.CommClause); ok && cc.Comm != nil {
				ast.Inspect(cc.Comm, func(m ast.Node) bool {
					if m != nil {
						inComm[m] = true
					}
					return true
				})
			}
			return true
		})
	}
	selN := 0

	// enclosing function names for site labels
	var curFn string
	pre := func(c *astutil.Cursor) bool {
		switch n := c.Node().(type) {
		case *ast.FuncDecl:
			curFn = n.Name.Name
		case *ast.GoStmt:
			if !r.driver {
				r.rep.GoStatements = append(r.rep.GoStatements, r.site(n.Pos(), curFn))
			}
		}
		return true
	}
	post := func(c *astutil.Cursor) bool {
		switch n := c.Node().(type) {
		case *ast.GoStmt:
			if r.driver {
				return true
			}
			// go f(a, b)  ->  { verifF := f; verifA0 := a; verifA1 := b; verifsim.Go(func() { verifF(verifA0, verifA1) }) }
			// (function value and arguments are evaluated now, as the go statement does)
			r.n++
			site := r.site(n.Pos(), curFn)
			var pre []ast.Stmt
			call := n.Call
			if lit, ok := call.Fun.(*ast.FuncLit); ok && len(call.Args) == 0 {
				c.Replace(&ast.ExprStmt{X: &ast.CallExpr{Fun: simSel("Go"), Args: []ast.Expr{lit}}})
			} else {
				fun := call.Fun
				if id, isID := fun.(*ast.Ident); !isID || info.Uses[id] == nil || info.Uses[id].Pkg() != nil {
					fv := ast.NewIdent(fmt.Sprintf("verifF%d", r.n))
					pre = append(pre, &ast.AssignStmt{Lhs: []ast.Expr{fv}, Tok: token.DEFINE, Rhs: []ast.Expr{fun}})
					fun = fv
				}
				var args []ast.Expr
				for i, a := range call.Args {
					av := ast.NewIdent(fmt.Sprintf("verifA%d_%d", r.n, i))
					pre = append(pre, &ast.AssignStmt{Lhs: []ast.Expr{av}, Tok: token.DEFINE, Rhs: []ast.Expr{a}})
					args = append(args, av)
				}
				inner := &ast.CallExpr{Fun: fun, Args: args, Ellipsis: call.Ellipsis}
				if call.Ellipsis != token.NoPos {
					inner.Ellipsis = 1
				}
				body := &ast.FuncLit{Type: &ast.FuncType{Params: &ast.FieldList{}}, Body: &ast.BlockStmt{List: []ast.Stmt{&ast.ExprStmt{X: inner}}}}
				pre = append(pre, &ast.ExprStmt{X: &ast.CallExpr{Fun: simSel("Go"), Args: []ast.Expr{body}}})
				c.Replace(&ast.BlockStmt{List: pre})
			}
			r.rep.Spawns = append(r.rep.Spawns, site+" go")
			r.needSim, changed = true, true
		case *ast.SelectorExpr:
			// the type time.Timer
			if !r.driver && n.Sel.Name == "Timer" && r.isPkg(n.X, "time") {
				c.Replace(simSel("Timer"))
				r.needSim, changed = true, true
			}
		case *ast.SendStmt:
			if r.driver || inComm[n] {
				return true
			}
			c.Replace(&ast.ExprStmt{X: &ast.CallExpr{Fun: simSel("ChanSend"), Args: []ast.Expr{n.Chan, n.Value}}})
			r.rep.ChanOps = append(r.rep.ChanOps, r.site(n.Pos(), curFn)+" send")
			r.needSim, changed = true, true
		case *ast.UnaryExpr:
			if r.driver || n.Op != token.ARROW || inComm[n] {
				return true
			}
			// `v, ok := <-ch` keeps both results
			fn := "ChanRecv"
			if as, ok := c.Parent().(*ast.AssignStmt); ok && len(as.Lhs) == 2 && len(as.Rhs) == 1 && as.Rhs[0] == ast.Expr(n) {
				fn = "ChanRecv2"
			}
			if vs, ok := c.Parent().(*ast.ValueSpec); ok && len(vs.Names) == 2 && len(vs.Values) == 1 {
				fn = "ChanRecv2"
			}
			c.Replace(&ast.CallExpr{Fun: simSel(fn), Args: []ast.Expr{n.X}})
			r.rep.ChanOps = append(r.rep.ChanOps, r.site(n.Pos(), curFn)+" receive")
			r.needSim, changed = true, true
		case *ast.SelectStmt:
			if r.driver {
				return true
			}
			site := r.site(n.Pos(), curFn)
			hasDefault := false
			for _, cl := range n.Body.List {
				if cc, ok := cl.(*ast.CommClause); ok && cc.Comm == nil {
					hasDefault = true
				}
			}
			if hasDefault {
				// non-blocking already, but still a point where another
				// goroutine may get in between: yield before it
				if _, isBlock := c.Parent().(*ast.BlockStmt); isBlock {
					c.InsertBefore(&ast.ExprStmt{X: &ast.CallExpr{Fun: simSel("SelectStart")}})
					r.rep.ChanOps = append(r.rep.ChanOps, site+" select with default (yield only)")
					r.needSim, changed = true, true
				}
				return true
			}
			if _, labeled := c.Parent().(*ast.LabeledStmt); labeled {
				r.rep.ChanSkipped = append(r.rep.ChanSkipped, site+" select (labeled)")
				return true
			}
			// { SelectStart(); L: select { …cases…; default: SelectWait(); goto L } }
			// (goto, not a loop: break/continue in the cases keep their meaning
			// and a select whose cases all return stays a terminating statement)
			selN++
			label := ast.NewIdent(fmt.Sprintf("verifSelect%d", selN))
			n.Body.List = append(n.Body.List, &ast.CommClause{Body: []ast.Stmt{
				&ast.ExprStmt{X: &ast.CallExpr{Fun: simSel("SelectWait")}},
				&ast.BranchStmt{Tok: token.GOTO, Label: label},
			}})
			c.Replace(&ast.BlockStmt{List: []ast.Stmt{
				&ast.ExprStmt{X: &ast.CallExpr{Fun: simSel("SelectStart")}},
				&ast.LabeledStmt{Label: label, Stmt: n},
			}})
			r.rep.ChanOps = append(r.rep.ChanOps, site+" select")
			r.needSim, changed = true, true
		case *ast.ForStmt:
			if r.wantsTick(n.Body) {
				r.rep.TickSites = append(r.rep.TickSites, r.site(n.Pos(), curFn))
				n.Body.List = append([]ast.Stmt{tickStmt()}, n.Body.List...)
				r.needSim, changed = true, true
			} else if r.wantsWork() && n.Body != nil {
				r.rep.WorkSites++
				n.Body.List = append([]ast.Stmt{workStmt()}, n.Body.List...)
				r.needSim, changed = true, true
			}
		case *ast.FuncLit:
			if r.wantsWork() && n.Body != nil {
				r.rep.WorkSites++
				n.Body.List = append([]ast.Stmt{workStmt()}, n.Body.List...)
				r.needSim, changed = true, true
			}
		case *ast.RangeStmt:
			if r.driver {
				return true
			}
			if r.wantsTick(n.Body) {
				r.rep.TickSites = append(r.rep.TickSites, r.site(n.Pos(), curFn))
				n.Body.List = append([]ast.Stmt{tickStmt()}, n.Body.List...)
				r.needSim, changed = true, true
			} else if r.wantsWork() && n.Body != nil {
				r.rep.WorkSites++
				n.Body.List = append([]ast.Stmt{workStmt()}, n.Body.List...)
				r.needSim, changed = true, true
			}
			tv, ok := info.Types[n.X]
			if !ok {
				return true
			}
			if _, isChan := tv.Type.Underlying().(*types.Chan); isChan {
				if _, labeled := c.Parent().(*ast.LabeledStmt); labeled {
					r.rep.ChanSkipped = append(r.rep.ChanSkipped, r.site(n.Pos(), curFn)+" range over channel (labeled)")
					return true
				}
				r.n++
				v, okID := ast.NewIdent("verifCV"+strconv.Itoa(r.n)), ast.NewIdent("verifCOK"+strconv.Itoa(r.n))
				body := []ast.Stmt{
					&ast.AssignStmt{Lhs: []ast.Expr{v, okID}, Tok: token.DEFINE, Rhs: []ast.Expr{&ast.CallExpr{Fun: simSel("ChanRecv2"), Args: []ast.Expr{n.X}}}},
					&ast.IfStmt{Cond: &ast.UnaryExpr{Op: token.NOT, X: okID}, Body: &ast.BlockStmt{List: []ast.Stmt{&ast.BranchStmt{Tok: token.BREAK}}}},
					&ast.AssignStmt{Lhs: []ast.Expr{ast.NewIdent("_")}, Tok: token.ASSIGN, Rhs: []ast.Expr{v}},
				}
				if n.Key != nil {
					if id, isID := n.Key.(*ast.Ident); !isID || id.Name != "_" {
						tok := n.Tok
						if tok != token.DEFINE && tok != token.ASSIGN {
							tok = token.DEFINE
						}
						body = append(body, &ast.AssignStmt{Lhs: []ast.Expr{n.Key}, Tok: tok, Rhs: []ast.Expr{v}})
					}
				}
				body = append(body, n.Body.List...)
				c.Replace(&ast.ForStmt{Body: &ast.BlockStmt{List: body}})
				r.rep.ChanOps = append(r.rep.ChanOps, r.site(n.Pos(), curFn)+" range over channel")
				r.needSim, changed = true, true
				return true
			}
			if _, isMap := tv.Type.Underlying().(*types.Map); !isMap {
				return true
			}
			site := r.site(n.Pos(), curFn)
			if _, labeled := c.Parent().(*ast.LabeledStmt); labeled {
				r.rep.SkippedSites = append(r.rep.SkippedSites, site+" (labeled)")
				return true
			}
			c.Replace(r.rewriteRange(n, site))
			r.rep.MapRangeSites = append(r.rep.MapRangeSites, site)
			r.needSim = true
			changed = true
		case *ast.CallExpr:
			sel, ok := n.Fun.(*ast.SelectorExpr)
			if !ok {
				return true
			}
			// reflect.Value.MapKeys()
			if !r.driver && sel.Sel.Name == "MapKeys" && len(n.Args) == 0 {
				if s, ok := info.Selections[sel]; ok && s.Recv().String() == "reflect.Value" {
					site := r.site(n.Pos(), curFn)
					c.Replace(&ast.CallExpr{Fun: simSel("OrderValues"), Args: []ast.Expr{n, strLit(site)}})
					r.rep.MapKeysSites = append(r.rep.MapKeysSites, site)
					r.needSim = true
					changed = true
					return true
				}
			}
			// the wall clock (library only)
			if !r.driver && r.isPkg(sel.X, "time") {
				switch sel.Sel.Name {
				case "Now", "Since", "Until", "Sleep":
					r.rep.TimeRewrites = append(r.rep.TimeRewrites, r.site(n.Pos(), curFn)+" "+sel.Sel.Name)
					n.Fun = simSel(sel.Sel.Name)
					r.needSim, changed = true, true
				case "After", "AfterFunc", "NewTimer":
					r.rep.Spawns = append(r.rep.Spawns, r.site(n.Pos(), curFn)+" time."+sel.Sel.Name)
					n.Fun = simSel(sel.Sel.Name)
					r.needSim, changed = true, true
				case "NewTicker", "Tick":
					r.rep.TimeUnmodelled = append(r.rep.TimeUnmodelled, r.site(n.Pos(), curFn)+" "+sel.Sel.Name)
				}
			}
			if !r.driver && r.isPkg(sel.X, "context") {
				switch sel.Sel.Name {
				case "WithTimeout", "WithDeadline", "WithCancel":
					// contexts derived inside the library stay on the simulated clock
					r.rep.CtxModelled = append(r.rep.CtxModelled, r.site(n.Pos(), curFn)+" context."+sel.Sel.Name)
					n.Fun = simSel("Lib" + sel.Sel.Name)
					r.needSim, changed = true, true
				case "AfterFunc", "WithTimeoutCause", "WithDeadlineCause", "WithCancelCause", "WithoutCancel":
					r.rep.CtxDerived = append(r.rep.CtxDerived, r.site(n.Pos(), curFn)+" context."+sel.Sel.Name)
				}
			}
			// sync/atomic: a scheduling point after every operation (not
			// where the call is the operand of go/defer: its arguments are
			// evaluated at another time than the call)
			if !r.driver {
				isAtomic := r.isPkg(sel.X, "sync/atomic")
				if !isAtomic {
					if sl, ok := info.Selections[sel]; ok && sl.Kind() == types.MethodVal {
						rt := sl.Recv()
						if pt, ok := rt.(*types.Pointer); ok {
							rt = pt.Elem()
						}
						if nt, ok := rt.(*types.Named); ok && nt.Obj().Pkg() != nil && nt.Obj().Pkg().Path() == "sync/atomic" {
							isAtomic = true
						}
					}
				}
				if isAtomic {
					switch par := c.Parent().(type) {
					case *ast.DeferStmt, *ast.GoStmt:
					case *ast.ExprStmt:
						_ = par
						c.Replace(&ast.CallExpr{Fun: simSel("AtomicPointCall"), Args: []ast.Expr{&ast.FuncLit{Type: &ast.FuncType{Params: &ast.FieldList{}}, Body: &ast.BlockStmt{List: []ast.Stmt{&ast.ExprStmt{X: n}}}}}})
						r.rep.AtomicPoints++
						r.needSim, changed = true, true
						return true
					default:
						if tv, ok := info.Types[n]; ok && tv.Type != nil {
							if tup, isTup := tv.Type.(*types.Tuple); !isTup || tup.Len() == 1 {
								c.Replace(&ast.CallExpr{Fun: simSel("AtomicPoint"), Args: []ast.Expr{n}})
								r.rep.AtomicPoints++
								r.needSim, changed = true, true
								return true
							}
						}
					}
				}
			}
			// fmt.Print* -> verifsim.Print* (library only)
			if !r.driver && r.isPkg(sel.X, "fmt") {
				switch sel.Sel.Name {
				case "Printf", "Println", "Print":
					n.Fun = simSel(sel.Sel.Name)
					r.rep.PrintCalls++
					r.needSim = true
					changed = true
				}
			}
			if r.driver {
				here := r.site(n.Pos(), curFn)
				switch {
				case (r.isPkg(sel.X, "io/ioutil") || r.isPkg(sel.X, "os")) && sel.Sel.Name == "ReadFile":
					n.Fun = simSel("ReadFile")
					r.rep.DriverRewrites = append(r.rep.DriverRewrites, here+" ReadFile")
					r.needSim, changed = true, true
				case r.isPkg(sel.X, "os") && sel.Sel.Name == "Exit":
					n.Fun = simSel("Exit")
					r.rep.DriverRewrites = append(r.rep.DriverRewrites, here+" Exit")
					r.needSim, changed = true, true
				case r.isPkg(sel.X, "context") && (sel.Sel.Name == "WithTimeout" || sel.Sel.Name == "WithDeadline"):
					n.Fun = simSel(sel.Sel.Name)
					r.rep.DriverRewrites = append(r.rep.DriverRewrites, here+" "+sel.Sel.Name)
					r.needSim, changed = true, true
				}
			}
		case *ast.FuncDecl:
			if r.wantsWork() && n.Body != nil {
				r.rep.WorkSites++
				n.Body.List = append([]ast.Stmt{workStmt()}, n.Body.List...)
				r.needSim, changed = true, true
			}
			if r.driver && n.Recv == nil && n.Name.Name == "main" && r.pkg.Name == "main" {
				n.Name = ast.NewIdent("verifRealMain")
				r.rep.DriverRewrites = append(r.rep.DriverRewrites, r.rel+" main->verifRealMain")
				changed = true
			}
		}
		return true
	}
	astutil.Apply(r.file, pre, post)

	if r.needSim {
		astutil.AddNamedImport(r.pkg.Fset, r.file, "verifsim", simPath)
	}
	if changed {
		// Imports that lost their last use would not compile: drop them
		// (collect first: deleting shifts the slice we would be ranging over).
		type dead struct{ name, path string }
		var drop []dead
		for _, imp := range r.file.Imports {
			path, _ := strconv.Unquote(imp.Path.Value)
			if path == simPath {
				continue
			}
			if imp.Name != nil && (imp.Name.Name == "_" || imp.Name.Name == ".") {
				continue
			}
			name := filepath.Base(path)
			if imp.Name != nil {
				name = imp.Name.Name
			} else if pn := r.pkgNameOf(imp); pn != "" {
				name = pn
			}
			if !usesIdent(r.file, name) {
				drop = append(drop, dead{importName(imp), path})
			}
		}
		for _, d := range drop {
			astutil.DeleteNamedImport(r.pkg.Fset, r.file, d.name, d.path)
		}
	}
	return changed
}

func importName(imp *ast.ImportSpec) string {
	if imp.Name != nil {
		return imp.Name.Name
	}
	return ""
}

func (r *rewriter) pkgNameOf(imp *ast.ImportSpec) string {
	if obj, ok := r.pkg.TypesInfo.Implicits[imp].(*types.PkgName); ok {
		return obj.Name()
	}
	return ""
}

// usesIdent reports whether name is still used as the X of a selector.
func usesIdent(f *ast.File, name string) bool {
	used := false
	ast.Inspect(f, func(n ast.Node) bool {
		if s, ok := n.(*ast.SelectorExpr); ok {
			if id, ok := s.X.(*ast.Ident); ok && id.Name == name && id.Obj == nil {
				used = true
			}
		}
		return !used
	})
	return used
}

func strLit(s string) ast.Expr {
	return &ast.BasicLit{Kind: token.STRING, Value: strconv.Quote(s)}
}

// rewriteRange turns
//
//	for k, v := range M { body }
//
// into
//
//	{ m := M; for _, kk := range verifsim.MapKeys(m, site) { vv, ok := m[kk]; if !ok { continue }; k, v := kk, vv; body } }
func (r *rewriter) rewriteRange(n *ast.RangeStmt, site string) ast.Stmt {
	r.n++
	sfx := strconv.Itoa(r.n)
	m, kk, vv, ok := ast.NewIdent("verifM"+sfx), ast.NewIdent("verifK"+sfx), ast.NewIdent("verifV"+sfx), ast.NewIdent("verifOK"+sfx)

	var lhs, rhs []ast.Expr
	blank := func(e ast.Expr) bool {
		if e == nil {
			return true
		}
		id, isID := e.(*ast.Ident)
		return isID && id.Name == "_"
	}
	if !blank(n.Key) {
		lhs, rhs = append(lhs, n.Key), append(rhs, kk)
	}
	if !blank(n.Value) {
		lhs, rhs = append(lhs, n.Value), append(rhs, vv)
	}
	body := []ast.Stmt{
		&ast.AssignStmt{Lhs: []ast.Expr{vv, ok}, Tok: token.DEFINE, Rhs: []ast.Expr{&ast.IndexExpr{X: m, Index: kk}}},
		&ast.IfStmt{Cond: &ast.UnaryExpr{Op: token.NOT, X: ok}, Body: &ast.BlockStmt{List: []ast.Stmt{&ast.BranchStmt{Tok: token.CONTINUE}}}},
		&ast.AssignStmt{Lhs: []ast.Expr{ast.NewIdent("_")}, Tok: token.ASSIGN, Rhs: []ast.Expr{vv}},
	}
	if len(lhs) > 0 {
		tok := n.Tok
		if tok != token.DEFINE && tok != token.ASSIGN {
			tok = token.DEFINE
		}
		body = append(body, &ast.AssignStmt{Lhs: lhs, Tok: tok, Rhs: rhs})
	}
	body = append(body, n.Body.List...)
	loop := &ast.RangeStmt{
		Key: ast.NewIdent("_"), Value: kk, Tok: token.DEFINE,
		X:    &ast.CallExpr{Fun: simSel("MapKeys"), Args: []ast.Expr{m, strLit(site)}},
		Body: &ast.BlockStmt{List: body},
	}
	return &ast.BlockStmt{List: []ast.Stmt{
		&ast.AssignStmt{Lhs: []ast.Expr{m}, Tok: token.DEFINE, Rhs: []ast.Expr{n.X}},
		loop,
	}}
}

// genAccessors writes read-only accessors found by type shape (DESIGN 2.2.3).
// A shape that is not found yields an accessor that returns -1.
func genAccessors(p *packages.Package, absRepo, srcOut string, overlay map[string]string, rep *report) {
	rel := strings.TrimPrefix(strings.TrimPrefix(p.PkgPath, modPath), "/")
	var code string
	switch rel {
	case "environment":
		field := findField(p, "Environment", func(t types.Type) bool {
			sl, ok := t.Underlying().(*types.Slice)
			if !ok {
				return false
			}
			_, ok = sl.Elem().Underlying().(*types.Map)
			return ok
		})
		body := "return -1"
		if field != "" {
			body = "return len(e." + field + ")"
		}
		rep.Accessors["environment.Environment.VerifScopeDepth"] = field
		code = "package environment\n\n// VerifScopeDepth reports the number of open local scopes.\nfunc (e *Environment) VerifScopeDepth() int { " + body + " }\n"
		// the names of the global variables that exist (whatever their value)
		gfield := findField(p, "Environment", func(t types.Type) bool {
			m, ok := t.Underlying().(*types.Map)
			if !ok {
				return false
			}
			b, ok := m.Key().Underlying().(*types.Basic)
			return ok && b.Kind() == types.String && strings.HasSuffix(m.Elem().String(), "/object.Object")
		})
		gbody := "return nil, false"
		if gfield != "" {
			gbody = "out := make([]string, 0, len(e." + gfield + ")); for k := range e." + gfield + " { out = append(out, k) }; return out, true"
		}
		rep.Accessors["environment.Environment.VerifGlobalNames"] = gfield
		code += "\n// VerifGlobalNames lists the global variables that exist.\nfunc (e *Environment) VerifGlobalNames() ([]string, bool) { " + gbody + " }\n"
		// the names of the functions that are registered (built-ins and the host's)
		ffield := findField(p, "Environment", func(t types.Type) bool {
			m, ok := t.Underlying().(*types.Map)
			if !ok {
				return false
			}
			b, ok := m.Key().Underlying().(*types.Basic)
			if !ok || b.Kind() != types.String {
				return false
			}
			_, isIface := m.Elem().Underlying().(*types.Interface)
			return isIface && !strings.HasSuffix(m.Elem().String(), "/object.Object")
		})
		fbody := "return nil, false"
		if ffield != "" {
			fbody = "out := make([]string, 0, len(e." + ffield + ")); for k := range e." + ffield + " { out = append(out, k) }; sort.Strings(out); return out, true"
			code = strings.Replace(code, "package environment\n", "package environment\n\nimport \"sort\"\n", 1)
		}
		rep.Accessors["environment.Environment.VerifFunctionNames"] = ffield
		code += "\n// VerifFunctionNames lists the registered functions.\nfunc (e *Environment) VerifFunctionNames() ([]string, bool) { " + fbody + " }\n"
	case "vm":
		field := findField(p, "VM", func(t types.Type) bool {
			pt, ok := t.(*types.Pointer)
			return ok && strings.HasSuffix(pt.Elem().String(), "/stack.Stack")
		})
		body := "return -1"
		if field != "" && hasMethod(p, field, "Size") {
			body = "if vm == nil || vm." + field + " == nil { return -1 }; return vm." + field + ".Size()"
		}
		rep.Accessors["vm.VM.VerifStackSize"] = field
		code = "package vm\n\n// VerifStackSize reports the depth of the value stack.\nfunc (vm *VM) VerifStackSize() int { " + body + " }\n"
	case "":
		fe := findField(p, "Eval", func(t types.Type) bool {
			pt, ok := t.(*types.Pointer)
			return ok && strings.HasSuffix(pt.Elem().String(), "/environment.Environment")
		})
		fv := findField(p, "Eval", func(t types.Type) bool {
			pt, ok := t.(*types.Pointer)
			return ok && strings.HasSuffix(pt.Elem().String(), "/vm.VM")
		})
		b1, b2 := "return -1", "return -1"
		if fe != "" {
			b1 = "if e." + fe + " == nil { return -1 }; return e." + fe + ".VerifScopeDepth()"
		}
		if fv != "" {
			b2 = "if e." + fv + " == nil { return -1 }; return e." + fv + ".VerifStackSize()"
		}
		rep.Accessors["Eval.VerifScopes"] = fe
		rep.Accessors["Eval.VerifStack"] = fv
		b3 := "return nil, false"
		if fe != "" {
			b3 = "if e." + fe + " == nil { return nil, false }; return e." + fe + ".VerifGlobalNames()"
		}
		b4 := "return nil, false"
		if fe != "" {
			b4 = "if e." + fe + " == nil { return nil, false }; return e." + fe + ".VerifFunctionNames()"
		}
		code = "package " + p.Name + "\n\n// VerifScopes reports the number of open local scopes.\nfunc (e *Eval) VerifScopes() int { " + b1 + " }\n\n// VerifStack reports the depth of the value stack.\nfunc (e *Eval) VerifStack() int { " + b2 + " }\n\n// VerifGlobalNames lists the global variables that exist.\nfunc (e *Eval) VerifGlobalNames() ([]string, bool) { " + b3 + " }\n"
		code += "\n// VerifFunctionNames lists the registered functions.\nfunc (e *Eval) VerifFunctionNames() ([]string, bool) { " + b4 + " }\n"
	default:
		return
	}
	src, err := format.Source([]byte("//go:build verif\n\n" + code))
	if err != nil {
		die("accessor for %s: %v", rel, err)
	}
	dst := filepath.Join(srcOut, rel, "zz_verif_accessors.go")
	writeFile(dst, src)
	overlay[filepath.Join(absRepo, rel, "zz_verif_accessors.go")] = dst
}

func findField(p *packages.Package, typeName string, pred func(types.Type) bool) string {
	obj := p.Types.Scope().Lookup(typeName)
	if obj == nil {
		return ""
	}
	st, ok := obj.Type().Underlying().(*types.Struct)
	if !ok {
		return ""
	}
	found := ""
	for i := 0; i < st.NumFields(); i++ {
		if pred(st.Field(i).Type()) {
			if found != "" {
				return "" // ambiguous
			}
			found = st.Field(i).Name()
		}
	}
	return found
}

func hasMethod(p *packages.Package, field, method string) bool {
	obj := p.Types.Scope().Lookup("VM")
	if obj == nil {
		return false
	}
	st := obj.Type().Underlying().(*types.Struct)
	for i := 0; i < st.NumFields(); i++ {
		if st.Field(i).Name() == field {
			ms := types.NewMethodSet(st.Field(i).Type())
			return ms.Lookup(nil, method) != nil
		}
	}
	return false
}

// patchPool makes sync.Pool.Put drop every object in race builds (instead of
// one in four at random), removing a source of schedule-dependent
// happens-before edges (DESIGN 2.4).
func patchPool(srcOut string, overlay map[string]string, rep *report) {
	goroot := strings.TrimSpace(os.Getenv("GOROOT"))
	if goroot == "" {
		goroot = strings.TrimSpace(runOut("go", "env", "GOROOT"))
	}
	path := filepath.Join(goroot, "src", "sync", "pool.go")
	data, err := os.ReadFile(path)
	if err != nil {
		die("read %s: %v", path, err)
	}
	old := "runtime_randn(4) == 0"
	if !bytes.Contains(data, []byte(old)) {
		die("sync/pool.go: pattern %q not found; cannot make the race-mode pool deterministic", old)
	}
	data = bytes.Replace(data, []byte(old), []byte("runtime_randn(4) >= 0"), 1)
	dst := filepath.Join(srcOut, "goroot", "sync", "pool.go")
	writeFile(dst, data)
	overlay[path] = dst
	rep.PoolPatched = true
}

const driverMain = `//go:build verif && go1.21

package main

import (
	"encoding/json"
	"fmt"
	"os"

	"github.com/skx/evalfilter/v2/verifsim"
)

// verifScenario is one simulated invocation of the driver.
type verifScenario struct {
	Args     []string                     ` + "`json:\"args\"`" + `
	Files    map[string]*verifsim.SimFile ` + "`json:\"files\"`" + `
	HardCap  int64                        ` + "`json:\"hard_cap\"`" + `
	StatFile string                       ` + "`json:\"stat_file\"`" + `
}

func main() {
	path := os.Getenv("VERIF_SCENARIO")
	if path == "" {
		verifRealMain()
		return
	}
	data, err := os.ReadFile(path)
	if err != nil {
		fmt.Fprintln(os.Stderr, "verif driver:", err)
		os.Exit(97)
	}
	var sc verifScenario
	if err := json.Unmarshal(data, &sc); err != nil {
		fmt.Fprintln(os.Stderr, "verif driver:", err)
		os.Exit(97)
	}
	verifsim.InstallFS(sc.Files)
	// the same files exist for real in the working directory, so a driver
	// that reads them through another API than ReadFile still finds them
	// (only an I/O error needs the seam; it degrades to "no such file")
	for name, f := range sc.Files {
		switch f.Fault {
		case "":
			os.WriteFile(name, f.Data, 0644)
		case "eisdir":
			os.Mkdir(name, 0755)
		}
	}
	verifsim.DriverHardCap = sc.HardCap
	os.Args = append([]string{"evalfilter"}, sc.Args...)
	if sc.StatFile != "" {
		verifsim.ExitHook = func(code int) {
			st := map[string]interface{}{"reads": verifsim.ReadCalls, "timers": verifsim.TimerCalls}
			if c := verifsim.DriverCtx; c != nil {
				st["polls"], st["ticks"], st["fired"], st["hitcap"], st["fired_at"], st["runaway"] = c.Polls, c.Ticks, c.Fired(), c.HitCap, c.FiredAt, c.Runaway
			}
			b, _ := json.Marshal(st)
			os.WriteFile(sc.StatFile, b, 0644)
		}
	}
	verifRealMain()
	verifsim.Exit(0)
}
`

func runOut(name string, args ...string) string {
	var sb strings.Builder
	cmd := exec.Command(name, args...)
	cmd.Stdout = &sb
	if err := cmd.Run(); err != nil {
		die("%s: %v", name, err)
	}
	return sb.String()
}
